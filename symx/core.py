"""symx.core -- symbolic execution of ordinary Python code on z3 terms.

The code under test (the real fast_ticc source) runs natively in CPython on
proxy values.  Every branch on a symbolic condition is decided by z3; both
feasible sides are explored by re-execution under a forced decision trail
(depth-first).  Integers that CPython needs concretely (``range(n)``,
``a[i]``, dict keys) are concretised by *forking*: the solver enumerates
every feasible value under the path condition and each becomes its own path.

At the end of (or during) a path the harness registers obligations with
``prove``: the negated formula is handed to z3 under the path condition;
``unsat`` = holds for every input on that path, ``sat`` = counterexample.
"""

import fractions
import math
import time
import traceback

import z3

Fraction = fractions.Fraction


class PathAbort(BaseException):
    """Raised to abandon the current path (cut / infeasible).  BaseException
    so that ``except Exception`` in code under test cannot swallow it."""


class PathCut(PathAbort):
    """Path abandoned because the split depth was reached (prefix collection)."""


class Unsupported(Exception):
    """The code under test used a construct the engine cannot keep symbolic."""


class HarnessError(Exception):
    """The harness itself is broken (vacuity, missing anchors, ...)."""


_CTX = None


def ctx():
    if _CTX is None:
        raise HarnessError("no active symbolic path")
    return _CTX


def active():
    return _CTX is not None


# --------------------------------------------------------------------------
# proxies
# --------------------------------------------------------------------------

def _is_sym(v):
    return isinstance(v, Sym)


def _const_real(v):
    if isinstance(v, bool):
        return z3.RealVal(int(v))
    if isinstance(v, int):
        return z3.RealVal(v)
    if isinstance(v, float):
        if v != v or v in (math.inf, -math.inf):
            raise Unsupported("non-finite float constant in REAL mode: %r" % (v,))
        f = Fraction(v)
        return z3.RealVal(str(f.numerator) + "/" + str(f.denominator))
    if isinstance(v, Fraction):
        return z3.RealVal(str(v.numerator) + "/" + str(v.denominator))
    raise Unsupported("cannot lift %r to a real term" % (type(v),))


def lift(v):
    """-> (z3 expr, kind) with kind in {'int','real','bool','fp','bits'}."""
    if isinstance(v, Sym):
        if isinstance(v, SymInt) and v._conc is not None:
            return z3.IntVal(v._conc), 'int'
        return v.e, v.kind
    if isinstance(v, bool):
        return z3.BoolVal(v), 'bool'
    if isinstance(v, int):
        return z3.IntVal(v), 'int'
    if isinstance(v, (float, Fraction)):
        return _const_real(v), 'real'
    raise Unsupported("cannot lift %r" % (type(v),))


def as_real(v):
    e, k = lift(v)
    if k == 'real':
        return e
    if k == 'int':
        return z3.ToReal(e)
    if k == 'bool':
        return z3.If(e, z3.RealVal(1), z3.RealVal(0))
    raise Unsupported("as_real of kind %s" % k)


def as_int(v):
    e, k = lift(v)
    if k == 'int':
        return e
    if k == 'bool':
        return z3.If(e, z3.IntVal(1), z3.IntVal(0))
    raise Unsupported("as_int of kind %s" % k)


def as_bool(v):
    if isinstance(v, SymBool):
        return v.e
    if isinstance(v, bool):
        return z3.BoolVal(v)
    if isinstance(v, (int, float, Fraction)):
        return z3.BoolVal(bool(v))
    if isinstance(v, SymInt):
        return as_int(v) != 0
    if isinstance(v, SymReal):
        return v.e != 0
    raise Unsupported("as_bool of %r" % (type(v),))


def term(v):
    """z3 term for any scalar the engine handles."""
    return lift(v)[0]


class Sym:
    kind = None
    __slots__ = ()


class SymBool(Sym):
    kind = 'bool'
    __slots__ = ('e',)

    def __init__(self, e):
        self.e = e

    def __bool__(self):
        return ctx().decide(self.e)

    def __and__(self, o):
        return mk_bool(z3.And(self.e, as_bool(o)))
    __rand__ = __and__

    def __or__(self, o):
        return mk_bool(z3.Or(self.e, as_bool(o)))
    __ror__ = __or__

    def __xor__(self, o):
        return mk_bool(z3.Xor(self.e, as_bool(o)))
    __rxor__ = __xor__

    def __invert__(self):
        return mk_bool(z3.Not(self.e))

    def __eq__(self, o):
        return mk_bool(self.e == as_bool(o))

    def __ne__(self, o):
        return mk_bool(self.e != as_bool(o))

    __hash__ = None

    # numpy bools take part in arithmetic (np.sum(mask))
    def __add__(self, o):
        return SymInt(as_int(self)) + o
    __radd__ = __add__

    def __mul__(self, o):
        return SymInt(as_int(self)) * o
    __rmul__ = __mul__

    def __repr__(self):
        return "SymBool(%s)" % (self.e,)


def mk_bool(e):
    e = z3.simplify(e)
    if z3.is_true(e):
        return True
    if z3.is_false(e):
        return False
    return SymBool(e)


def _pyval(e):
    """Concrete python value of a simplified numeral term, else None."""
    if z3.is_int_value(e):
        return e.as_long()
    if z3.is_rational_value(e):
        return Fraction(e.numerator_as_long(), e.denominator_as_long())
    return None


def _infinite(o):
    """+1 / -1 for a concrete IEEE infinity operand, 0 otherwise."""
    if isinstance(o, float) and o != o:
        raise Unsupported("NaN operand")
    if isinstance(o, float) and o in (float('inf'), float('-inf')):
        return 1 if o > 0 else -1
    return 0


class _Num(Sym):
    __slots__ = ()

    # ---- helpers
    def _bin(self, o, fn, int_ok=True, exact=False):
        try:
            a, ka = lift(self)
            b, kb = lift(o)
        except Unsupported:
            return NotImplemented
        if ka == 'bool':
            a, ka = as_int(self), 'int'
        if kb == 'bool':
            b, kb = as_int(o), 'int'
        if ka == 'int' and kb == 'int' and int_ok:
            ta, tb = getattr(self, 'tag', None), getattr(o, 'tag', None)
            ut = ta if ta in UNSIGNED else (tb if tb in UNSIGNED else None)
            if ut is not None and (ta in (None, 'int', ut)) and (tb in (None, 'int', ut)):
                # python ints are weak: an unsigned NumPy scalar op a python int (or its own type) stays
                # unsigned and wraps around (NumPy warns and carries on)
                return mk_int(fn(a, b) % (1 << UNSIGNED[ut]), ut)
            return mk_int(fn(a, b))
        if ka not in ('int', 'real') or kb not in ('int', 'real'):
            return NotImplemented
        if ka == 'int':
            a = z3.ToReal(a)
        if kb == 'int':
            b = z3.ToReal(b)
        tag = _tag_of(self, o)
        r = fn(a, b)
        if tag in NARROW and _CTX is not None and not exact:
            r = round_to(r, tag)
        return mk_real(r, tag)

    def _cmp(self, o, fn):
        try:
            a, ka = lift(self)
            b, kb = lift(o)
        except Unsupported:
            return NotImplemented
        if kb == 'bool':
            b, kb = as_int(o), 'int'
        if ka not in ('int', 'real') or kb not in ('int', 'real'):
            return NotImplemented
        if ka != kb:
            if ka == 'int':
                a = z3.ToReal(a)
            if kb == 'int':
                b = z3.ToReal(b)
        return mk_bool(fn(a, b))

    def __add__(self, o):
        if _infinite(o):
            return o                      # finite + inf = inf: a symbolic real is finite
        return self._bin(o, lambda a, b: a + b)

    def __radd__(self, o):
        if _infinite(o):
            return o
        return self._bin(o, lambda a, b: b + a)

    def __sub__(self, o):
        if _infinite(o):
            return -o
        return self._bin(o, lambda a, b: a - b)

    def __rsub__(self, o):
        if _infinite(o):
            return o
        return self._bin(o, lambda a, b: b - a)

    def __mul__(self, o):
        return self._bin(o, lambda a, b: a * b, exact=_is_pow2(o))

    def __rmul__(self, o):
        return self._bin(o, lambda a, b: b * a, exact=_is_pow2(o))

    def __truediv__(self, o):
        if isinstance(o, _Num) and _CTX is not None and _CTX.ex.purify_div:
            return _purified_div(self, o)
        return self._bin(o, lambda a, b: a / b, int_ok=False)

    def __rtruediv__(self, o):
        if _CTX is not None and _CTX.ex.purify_div:
            return _purified_div(o, self)
        return self._bin(o, lambda a, b: b / a, int_ok=False)

    def __neg__(self):
        if self.kind == 'int':
            bits = UNSIGNED.get(getattr(self, 'tag', None))
            if bits is not None:
                # negating an unsigned NumPy integer scalar wraps (NumPy warns and carries on)
                return mk_int((-lift(self)[0]) % (1 << bits), self.tag)
            return mk_int(-lift(self)[0])
        return mk_real(-self.e, self.tag)

    def __pos__(self):
        return self

    def __abs__(self):
        e = lift(self)[0]
        if _CTX is not None and _CTX.ex.fork_ite:
            return self if _CTX.decide(e >= 0) else -self
        r = z3.If(e >= 0, e, -e)
        return mk_int(r) if self.kind == 'int' else mk_real(r, self.tag)

    def __pow__(self, p):
        if isinstance(p, SymInt):
            p = int(p)
        if isinstance(p, int) and 0 <= p <= 8:
            r = 1
            for _ in range(p):
                r = r * self
            return r
        if isinstance(p, float) and p == 0.5:
            return sym_sqrt(self)
        raise Unsupported("power with exponent %r" % (p,))

    def __lt__(self, o):
        if _infinite(o):
            return _infinite(o) > 0
        return self._cmp(o, lambda a, b: a < b)

    def __le__(self, o):
        if _infinite(o):
            return _infinite(o) > 0
        return self._cmp(o, lambda a, b: a <= b)

    def __gt__(self, o):
        if _infinite(o):
            return _infinite(o) < 0
        return self._cmp(o, lambda a, b: a > b)

    def __ge__(self, o):
        if _infinite(o):
            return _infinite(o) < 0
        return self._cmp(o, lambda a, b: a >= b)

    def __eq__(self, o):
        if o is None:
            return False
        if _infinite(o):
            return False
        r = self._cmp(o, lambda a, b: a == b)
        return False if r is NotImplemented else r

    def __ne__(self, o):
        if o is None:
            return True
        if _infinite(o):
            return True
        r = self._cmp(o, lambda a, b: a != b)
        return True if r is NotImplemented else r

    def __bool__(self):
        return ctx().decide(lift(self)[0] != 0)


def _purified_div(a, b):
    """a / b with a symbolic denominator, for nlsat: a fresh quotient q with
    q * b == a (pure polynomial constraint) instead of a division term.  The
    denominator being zero is its own path (numpy would produce inf/nan)."""
    c = ctx()
    be = as_real(b)
    if not c.decide(be != 0):
        raise ZeroDivisionError("float division by zero")
    q = c.fresh_real('quot')
    c.assume(q * be == as_real(a))
    return SymReal(q, _tag_of(a, b))


NARROW = {'np.float32': 24, 'np.float16': 11}      # tag -> significand bits
UNSIGNED = {'np.uint8': 8, 'np.uint16': 16, 'np.uint32': 32, 'np.uint64': 64}   # tag -> width


def _is_pow2(v):
    """Multiplying a binary float by +-2^k (k small) is exact, whatever its width."""
    if isinstance(v, bool) or not isinstance(v, (int, float)):
        return False
    v = abs(v)
    if v == 0:
        return True
    m, _ = math.frexp(v)
    return m == 0.5 and 2.0 ** -20 <= v <= 2.0 ** 20


def _tag_of(a, b):
    """Result type tag of a binary operation under NumPy's promotion rules, as far as the
    repo's isinstance dispatch and float widths are concerned (python scalars are weak)."""
    ta = getattr(a, 'tag', None)
    tb = getattr(b, 'tag', None)
    if ta is None or tb is None:
        # python int/float operand: weak, the numpy scalar's type wins
        return ta or tb or 'float'
    if ta == tb:
        return ta
    for t in ('np.float64', 'float'):
        if ta == t or tb == t:
            return 'np.float64' if 'np.float64' in (ta, tb) else 'float'
    if ta in NARROW and tb in NARROW:
        return ta if NARROW[ta] >= NARROW[tb] else tb
    if ta in NARROW:
        return ta if tb in ('int',) else 'np.float64'
    if tb in NARROW:
        return tb if ta in ('int',) else 'np.float64'
    return ta


def round_to(e, tag):
    """Result of an arithmetic operation carried out in a narrow float type: an (Ackermannised)
    uninterpreted rounding function of the exact value -- all the engine needs to know is that
    it is *some* function of the exact result, not the identity."""
    c = ctx()
    e = z3.simplify(e)
    for (t, a, v) in c.roundings:
        if t == tag and a.eq(e):
            return v
    v = c.fresh_real('rnd' + tag[-2:])
    for (t, a, w) in c.roundings:
        if t == tag:
            c.assume(z3.Implies(a == e, w == v))
    c.roundings.append((tag, e, v))
    return v


def _floordiv(a, b):
    # python floor division on z3 Ints (z3 div is Euclidean: floor for b>0)
    return z3.If(b > 0, a / b, z3.If(a % (-b) == 0, -(a / (-b)), -(a / (-b)) - 1)) \
        if not z3.is_int_value(b) else (a / b if b.as_long() > 0 else
                                        z3.If(a % (-b) == 0, -(a / (-b)), -(a / (-b)) - 1))


class SymInt(_Num):
    kind = 'int'
    __slots__ = ('e', '_conc', 'tag')

    def __init__(self, e, tag='int'):
        self.e = e
        self._conc = None
        self.tag = tag

    def concrete(self):
        if self._conc is None:
            self._conc = ctx().concretize(self.e)
        return self._conc

    def __index__(self):
        return self.concrete()

    __int__ = __index__

    def __float__(self):
        return float(self.concrete())

    def __hash__(self):
        return hash(self.concrete())

    def __floordiv__(self, o):
        if isinstance(o, (int, SymInt)) and not isinstance(o, bool):
            return mk_int(_floordiv(as_int(self), as_int(o)))
        return NotImplemented

    def __rfloordiv__(self, o):
        if isinstance(o, int):
            return mk_int(_floordiv(z3.IntVal(o), as_int(self)))
        return NotImplemented

    def __mod__(self, o):
        if isinstance(o, (int, SymInt)):
            a, b = as_int(self), as_int(o)
            q = _floordiv(a, b)
            return mk_int(a - q * b)
        return NotImplemented

    def __rmod__(self, o):
        if isinstance(o, int):
            a, b = z3.IntVal(o), as_int(self)
            q = _floordiv(a, b)
            return mk_int(a - q * b)
        return NotImplemented

    def __eq__(self, o):
        if o is None:
            return False
        if self._conc is not None and isinstance(o, int):
            return self._conc == o
        if self._conc is not None and isinstance(o, SymInt) and o._conc is not None:
            return self._conc == o._conc
        r = self._cmp(o, lambda a, b: a == b)
        return False if r is NotImplemented else r

    def __ne__(self, o):
        r = self.__eq__(o)
        if isinstance(r, bool):
            return not r
        return ~r

    def __repr__(self):
        if self._conc is not None:
            return "SymInt(=%d)" % self._conc
        return "SymInt(%s)" % (self.e,)

    __str__ = __repr__

    def __format__(self, spec):
        return repr(self)


class SymReal(_Num):
    kind = 'real'
    __slots__ = ('e', 'tag')

    def __init__(self, e, tag='float'):
        self.e = e
        self.tag = tag

    __hash__ = None

    def __floor__(self):
        return mk_int(z3.ToInt(self.e))

    def __ceil__(self):
        return mk_int(-z3.ToInt(-self.e))

    def __trunc__(self):
        return mk_int(z3.If(self.e >= 0, z3.ToInt(self.e), -z3.ToInt(-self.e)))

    def __repr__(self):
        return "SymReal(%s)" % (z3.simplify(self.e),)

    __str__ = __repr__

    def __format__(self, spec):
        return repr(self)


def mk_int(e, tag='int'):
    e = z3.simplify(e)
    if z3.is_int_value(e):
        if tag in UNSIGNED:
            r = SymInt(e, tag)           # a concrete value that is still an unsigned NumPy scalar
            r._conc = e.as_long()
            return r
        return e.as_long()
    return SymInt(e, tag)


def mk_real(e, tag='float'):
    """Real-valued result.  Numerals stay symbolic-typed (exact rationals),
    except that they are returned as SymReal to keep exactness; a numeral that
    is exactly representable is still kept exact (no float rounding)."""
    e = z3.simplify(e)
    return SymReal(e, tag)


def real_value(v):
    """Exact Fraction of a concrete scalar or numeral SymReal, else None."""
    if isinstance(v, bool):
        return Fraction(int(v))
    if isinstance(v, (int, float, Fraction)):
        return Fraction(v)
    if isinstance(v, SymInt) and v._conc is not None:
        return Fraction(v._conc)
    if isinstance(v, (SymReal, SymInt)):
        return _pyval(z3.simplify(v.e)) if _pyval(z3.simplify(v.e)) is None else Fraction(_pyval(z3.simplify(v.e)))
    return None


class SymBits(Sym):
    """Opaque 64-bit payload: supports equality only (BITS mode)."""
    kind = 'bits'
    __slots__ = ('e',)

    def __init__(self, e):
        self.e = e

    def __eq__(self, o):
        if isinstance(o, SymBits):
            return mk_bool(self.e == o.e)
        return False

    def __ne__(self, o):
        if isinstance(o, SymBits):
            return mk_bool(self.e != o.e)
        return True

    __hash__ = None

    # Arithmetic on a payload: the bits are read as an IEEE-754 binary64 value and the
    # operation is carried out in z3's FloatingPoint theory (round-to-nearest-even), so a
    # "harmless" 0.0 + x is seen to turn -0.0 into +0.0.  Sign manipulations stay on the bits
    # (they are exact for every payload, NaNs included).
    def _fp(self):
        c = ctx()
        c.fp_mode = True
        return SymFP(z3.fpBVToFP(self.e, FP64))

    def __add__(self, o):
        return self._fp() + _unbits(o)

    def __radd__(self, o):
        return _unbits(o) + self._fp()

    def __sub__(self, o):
        return self._fp() - _unbits(o)

    def __rsub__(self, o):
        return _unbits(o) - self._fp()

    def __mul__(self, o):
        return self._fp()._b(_unbits(o), lambda a, b: z3.fpMul(RNE, a, b))

    def __rmul__(self, o):
        return self._fp()._b(_unbits(o), lambda a, b: z3.fpMul(RNE, a, b), True)

    def __truediv__(self, o):
        return self._fp()._b(_unbits(o), lambda a, b: z3.fpDiv(RNE, a, b))

    def __rtruediv__(self, o):
        return self._fp()._b(_unbits(o), lambda a, b: z3.fpDiv(RNE, a, b), True)

    def __neg__(self):
        return SymBits(self.e ^ z3.BitVecVal(1 << 63, 64))

    def __abs__(self):
        return SymBits(self.e & z3.BitVecVal((1 << 63) - 1, 64))

    def __lt__(self, o):
        return self._fp() < _unbits(o)

    def __le__(self, o):
        return self._fp() <= _unbits(o)

    def __gt__(self, o):
        return self._fp() > _unbits(o)

    def __ge__(self, o):
        return self._fp() >= _unbits(o)

    def __repr__(self):
        return "SymBits(%s)" % (self.e,)


# ---- IEEE-754 binary64 ------------------------------------------------------

FP64 = z3.Float64()
RNE = z3.RNE()


def _unbits(v):
    return v._fp() if isinstance(v, SymBits) else v


def fp_const(v):
    if isinstance(v, SymFP):
        return v.e
    if isinstance(v, bool):
        v = int(v)
    if isinstance(v, (int, float)):
        return z3.FPVal(float(v), FP64)
    if isinstance(v, SymInt) and v._conc is not None:
        return z3.FPVal(float(v._conc), FP64)
    raise Unsupported("cannot lift %r to binary64" % (type(v),))


class SymFP(Sym):
    kind = 'fp'
    __slots__ = ('e', 'tag')

    def __init__(self, e, tag='float'):
        self.e = e
        self.tag = tag

    __hash__ = None

    def _b(self, o, fn, swap=False):
        try:
            b = fp_const(o)
        except Unsupported:
            return NotImplemented
        a = self.e
        if swap:
            a, b = b, a
        return SymFP(fn(a, b))

    def __add__(self, o):
        return self._b(o, lambda a, b: z3.fpAdd(RNE, a, b))

    def __radd__(self, o):
        return self._b(o, lambda a, b: z3.fpAdd(RNE, a, b), True)

    def __sub__(self, o):
        return self._b(o, lambda a, b: z3.fpSub(RNE, a, b))

    def __rsub__(self, o):
        return self._b(o, lambda a, b: z3.fpSub(RNE, a, b), True)

    def __mul__(self, o):
        if isinstance(o, (int, float)) and not isinstance(o, bool) and o == 1:
            return self                      # x * 1.0 is x exactly in IEEE-754 (bit-blasting a multiplier is costly)
        return self._b(o, lambda a, b: z3.fpMul(RNE, a, b))

    def __rmul__(self, o):
        if isinstance(o, (int, float)) and not isinstance(o, bool) and o == 1:
            return self
        return self._b(o, lambda a, b: z3.fpMul(RNE, a, b), True)

    def __truediv__(self, o):
        if isinstance(o, (int, float)) and not isinstance(o, bool) and o == 1:
            return self
        return self._b(o, lambda a, b: z3.fpDiv(RNE, a, b))

    def __rtruediv__(self, o):
        return self._b(o, lambda a, b: z3.fpDiv(RNE, a, b), True)

    def __neg__(self):
        return SymFP(z3.fpNeg(self.e))

    def __abs__(self):
        return SymFP(z3.fpAbs(self.e))

    def _c(self, o, fn):
        try:
            b = fp_const(o)
        except Unsupported:
            return NotImplemented
        return mk_bool(fn(self.e, b))

    def __lt__(self, o):
        return self._c(o, z3.fpLT)

    def __le__(self, o):
        return self._c(o, z3.fpLEQ)

    def __gt__(self, o):
        return self._c(o, z3.fpGT)

    def __ge__(self, o):
        return self._c(o, z3.fpGEQ)

    def __eq__(self, o):
        r = self._c(o, z3.fpEQ)
        return False if r is NotImplemented else r

    def __ne__(self, o):
        r = self._c(o, lambda a, b: z3.Not(z3.fpEQ(a, b)))
        return True if r is NotImplemented else r

    def __bool__(self):
        return ctx().decide(z3.Not(z3.fpIsZero(self.e)))

    def __repr__(self):
        return "SymFP(%s)" % (self.e,)


# ---- elementary functions -----------------------------------------------------

LOG = z3.Function('LOG', z3.RealSort(), z3.RealSort())


def sym_sqrt(x):
    if isinstance(x, SymFP):
        return SymFP(z3.fpSqrt(RNE, x.e))
    if isinstance(x, (SymInt, SymReal)):
        c = ctx()
        xe = z3.simplify(as_real(x))
        for (a, v) in c.sqrts:
            if a.eq(xe):
                return SymReal(v)
        if not c.decide(xe >= 0):
            raise Unsupported("sqrt of a negative real (NaN) in REAL mode")
        s = c.fresh_real('sqrt')
        c.assume(z3.And(s >= 0, s * s == xe))
        c.sqrts.append((xe, s))
        return SymReal(s)
    return math.sqrt(x)


def log_term(xe):
    """ln(x) for a real term: Ackermannised uninterpreted function.  Each
    syntactically distinct argument gets a fresh real; congruence with every
    earlier argument is added to the path condition (arg_i = arg_j ->
    val_i = val_j), which keeps obligations in pure nonlinear real arithmetic
    (nlsat does not take uninterpreted functions)."""
    c = ctx()
    xe = z3.simplify(xe)
    for (a, v) in c.logs:
        if a.eq(xe):
            return v
    v = c.fresh_real('ln')
    for (a, w) in c.logs:
        c.assume(z3.Implies(a == xe, w == v))
    c.logs.append((xe, v))
    return v


LOG_UNDERFLOW = z3.Q(1, 2 ** 1080)
LOG_OVERFLOW = z3.RealVal(2 ** 1025)


def sym_log(x):
    if isinstance(x, SymFP):
        raise Unsupported("log in FP64 mode")
    if isinstance(x, (SymInt, SymReal)):
        c = ctx()
        if c.log_range_obligation:
            # REAL mode has no overflow; where a harness asks for it, the argument of ln must be a
            # value binary64 can hold (else the real code computes ln(0) = -inf or ln(inf) = inf)
            xe = as_real(x)
            c.prove(c.log_range_obligation, z3.And(xe >= LOG_UNDERFLOW, xe <= LOG_OVERFLOW))
        return SymReal(log_term(as_real(x)))
    return math.log(x)


def sym_int(x):
    """Replacement for builtin int() inside loaded modules."""
    if isinstance(x, SymReal):
        return x.__trunc__()
    if isinstance(x, SymInt):
        return x
    if isinstance(x, SymBool):
        return mk_int(as_int(x))
    return int(x)


def sym_float(x):
    if isinstance(x, SymReal):
        return x if x.tag == 'float' else SymReal(x.e, 'float')
    if isinstance(x, SymFP):
        return x
    if isinstance(x, SymInt):
        return mk_real(z3.ToReal(lift(x)[0]))
    return float(x)


def sym_round(x, nd=None):
    if isinstance(x, SymReal):
        raise Unsupported("round() of a symbolic real")
    return round(x) if nd is None else round(x, nd)


def ite(c, a, b):
    """Merge two scalars under a (possibly symbolic) condition."""
    if isinstance(c, bool):
        return a if c else b
    ce = as_bool(c)
    if _CTX is not None and _CTX.ex.fork_ite:
        # case split instead of an If-term (keeps nonlinear obligations free of If for nlsat)
        return a if _CTX.decide(ce) else b
    if isinstance(a, SymFP) or isinstance(b, SymFP):
        return SymFP(z3.If(ce, fp_const(a), fp_const(b)))
    if not isinstance(a, Sym) and not isinstance(b, Sym) and type(a) is type(b) and a == b and \
            (not isinstance(a, float) or math.copysign(1.0, a) == math.copysign(1.0, b)):
        return a
    if _CTX is not None and _CTX.fp_mode and isinstance(a, (int, float)) and isinstance(b, (int, float)) \
            and not isinstance(a, bool) and not isinstance(b, bool):
        return SymFP(z3.If(ce, fp_const(a), fp_const(b)))
    if isinstance(a, SymBits) or isinstance(b, SymBits):
        raise Unsupported("ite over BITS payloads")
    (ea, ka), (eb, kb) = lift(a), lift(b)
    if ka == 'bool' and kb == 'bool':
        return mk_bool(z3.If(ce, ea, eb))
    if ka == 'int' and kb == 'int':
        return mk_int(z3.If(ce, ea, eb))
    return mk_real(z3.If(ce, as_real(a), as_real(b)))


# --------------------------------------------------------------------------
# path context and explorer
# --------------------------------------------------------------------------

class Stats:
    def __init__(self):
        self.paths = 0
        self.decisions = 0          # solver-decided branch decisions (new)
        self.forced = 0             # replayed decisions
        self.concretizations = 0
        self.solver_calls = 0
        self.solver_time = 0.0
        self.obligations = 0
        self.discharged = 0
        self.inconclusive = 0
        self.violated = 0
        self.cut = 0
        self.by_name = {}

    def merge(self, o):
        for k in ('paths', 'decisions', 'forced', 'concretizations', 'solver_calls',
                  'obligations', 'discharged', 'inconclusive', 'violated', 'cut'):
            setattr(self, k, getattr(self, k) + getattr(o, k))
        self.solver_time += o.solver_time
        for k, v in o.by_name.items():
            d = self.by_name.setdefault(k, [0, 0, 0, 0, 0.0])
            for i in range(len(v)):
                d[i] += v[i]

    def as_dict(self):
        d = {k: getattr(self, k) for k in (
            'paths', 'decisions', 'forced', 'concretizations', 'solver_calls',
            'obligations', 'discharged', 'inconclusive', 'violated', 'cut')}
        d['solver_time_s'] = round(self.solver_time, 3)
        d['by_obligation'] = {k: {'checked': v[0], 'unsat': v[1], 'sat': v[2], 'unknown': v[3],
                                  'solver_time_s': round(v[4], 2) if len(v) > 4 else 0}
                              for k, v in sorted(self.by_name.items())}
        return d


def model_value(m, e):
    v = m.eval(e, model_completion=True)
    if z3.is_int_value(v):
        return v.as_long()
    if z3.is_rational_value(v):
        return Fraction(v.numerator_as_long(), v.denominator_as_long())
    if z3.is_algebraic_value(v):
        a = v.approx(30)
        return Fraction(a.numerator_as_long(), a.denominator_as_long())
    if z3.is_true(v):
        return True
    if z3.is_false(v):
        return False
    if z3.is_fp(v):
        if z3.is_fprm_value(v):
            return str(v)
        try:
            bv = m.eval(z3.fpToIEEEBV(v), model_completion=True)
            return {'fp64_bits': '%016x' % bv.as_long()}
        except Exception:
            return str(v)
    if z3.is_bv_value(v):
        return v.as_long()
    return str(v)


def jsonable(v):
    if isinstance(v, Fraction):
        if v.denominator == 1:
            return int(v.numerator)
        return "%d/%d" % (v.numerator, v.denominator)
    if isinstance(v, dict):
        return {str(k): jsonable(x) for k, x in v.items()}
    if isinstance(v, (list, tuple)):
        return [jsonable(x) for x in v]
    return v


_VARS_CACHE = {}


def term_vars(e):
    """frozenset of names of the uninterpreted constants in term e."""
    k = e.get_id()
    r = _VARS_CACHE.get(k)
    if r is not None and r[0].eq(e):
        return r[1]
    out = set()
    seen = set()
    stack = [e]
    while stack:
        t = stack.pop()
        i = t.get_id()
        if i in seen:
            continue
        seen.add(i)
        if z3.is_const(t):
            if t.decl().kind() == z3.Z3_OP_UNINTERPRETED:
                out.add(t.decl().name())
        else:
            stack.extend(t.children())
    r = frozenset(out)
    if len(_VARS_CACHE) > 200000:
        _VARS_CACHE.clear()
    _VARS_CACHE[k] = (e, r)
    return r


DELTA = z3.Q(1, 1000)


def strengthen(f, pos=True):
    """A formula implying f (pos) / implying Not(f) (not pos) in which every
    real comparison holds with a margin, so that a model survives binary64
    rounding and approximated constants on the real build."""
    k = f.decl().kind() if z3.is_app(f) else None
    ch = f.children() if z3.is_app(f) else []
    if k == z3.Z3_OP_NOT:
        return strengthen(ch[0], not pos)
    if k == z3.Z3_OP_AND:
        parts = [strengthen(x, pos) for x in ch]
        return z3.And(*parts) if pos else z3.Or(*parts)
    if k == z3.Z3_OP_OR:
        parts = [strengthen(x, pos) for x in ch]
        return z3.Or(*parts) if pos else z3.And(*parts)
    if k == z3.Z3_OP_IMPLIES:
        return strengthen(z3.Or(z3.Not(ch[0]), ch[1]), pos)
    if k in (z3.Z3_OP_LT, z3.Z3_OP_LE, z3.Z3_OP_GT, z3.Z3_OP_GE) and ch[0].sort() == z3.RealSort():
        a, b = ch
        if k in (z3.Z3_OP_GT, z3.Z3_OP_GE):
            a, b = b, a           # now: a < b or a <= b
        if pos:
            return a + DELTA <= b
        return a >= b + DELTA
    if k == z3.Z3_OP_EQ and ch[0].sort() != z3.RealSort() and not z3.is_bool(ch[0]):
        # integer-valued If-terms hide real comparisons (merged argmin)
        for i in (0, 1):
            t, o = ch[i], ch[1 - i]
            if z3.is_app(t) and t.decl().kind() == z3.Z3_OP_ITE:
                c0, x, y = t.children()
                e = z3.Or(z3.And(strengthen(c0, True), strengthen(x == o, True)),
                          z3.And(strengthen(c0, False), strengthen(y == o, True)))
                return e if pos else z3.Not(f)
        return f if pos else z3.Not(f)
    if k == z3.Z3_OP_DISTINCT and len(ch) == 2 and ch[0].sort() != z3.RealSort():
        return strengthen(z3.Not(ch[0] == ch[1]), pos)
    return f if pos else z3.Not(f)


class MergedModel:
    """Model of a cone-of-influence query, completed with the path model for
    the variables outside the cone (disjoint variable sets)."""

    def __init__(self, cone_model, cone_vars, path_model):
        self.m1, self.vs, self.m0 = cone_model, cone_vars, path_model

    def eval(self, e, model_completion=True):
        if self.m0 is None:
            return self.m1.eval(e, model_completion=model_completion)
        # cone variables from the cone model first (they are left symbolic if
        # the cone model does not mention them), the rest from the path model
        partial = self.m1.eval(e, model_completion=False)
        return self.m0.eval(partial, model_completion=model_completion)


class PathCtx:
    def __init__(self, explorer, trail):
        self.ex = explorer
        self.trail = trail          # list of [value, model, alternatives]
        self.pos = 0
        self.solver = z3.Solver()
        self.solver.set('timeout', explorer.branch_timeout_ms)
        self.pc = []                # assertions, for fresh-solver re-checks
        self.decided = []           # the subset of pc that are branch/value decisions (not assumptions)
        self.model = None           # a model of the current path condition, if known
        self.nfresh = 0
        self.inputs = {}            # name -> z3 term (declared symbolic inputs)
        self.notes = {}             # concrete per-path facts for witnesses
        self.reached = set()        # obligation names reached on this path
        self.outputs = {}           # name -> term/py value (for witness validation)
        self.logs = []              # (argument term, value term) of ln applications
        self.sqrts = []             # (argument term, value term) of sqrt applications
        self.roundings = []         # (type tag, exact term, rounded value) of narrow-float operations
        self.fp_mode = False        # set once a binary64 input is declared: merged concrete floats stay FP
        self.norm_hints = []        # preferred extra constraints for witnesses / counterexamples
        self.log_range_obligation = None   # name of the obligation guarding arguments of ln (finiteness configs)

    # ---- declaring inputs
    def real(self, name, lo=None, hi=None, tag='float'):
        v = z3.Real(name)
        self.inputs[name] = v
        if lo is not None:
            self.assume(v >= _const_real(lo))
        if hi is not None:
            self.assume(v <= _const_real(hi))
        return SymReal(v, tag)

    def int(self, name, lo=None, hi=None, tag='int'):
        v = z3.Int(name)
        self.inputs[name] = v
        if lo is not None:
            self.assume(v >= lo)
        if hi is not None:
            self.assume(v <= hi)
        return SymInt(v, tag)

    def bool(self, name):
        v = z3.Bool(name)
        self.inputs[name] = v
        return SymBool(v)

    def bits(self, name):
        v = z3.BitVec(name, 64)
        self.inputs[name] = v
        return SymBits(v)

    def fp(self, name):
        v = z3.FP(name, FP64)
        self.inputs[name] = v
        self.fp_mode = True
        return SymFP(v)

    def fresh_real(self, hint='t'):
        self.nfresh += 1
        return z3.Real('%s!%d' % (hint, self.nfresh))

    def fresh_int(self, hint='t'):
        self.nfresh += 1
        return z3.Int('%s!%d' % (hint, self.nfresh))

    def fresh_name(self, hint='t'):
        self.nfresh += 1
        return '%s!%d' % (hint, self.nfresh)

    # ---- solver plumbing
    def _check(self, *assumptions):
        st = self.ex.stats
        t0 = time.perf_counter()
        r = self.solver.check(*assumptions)
        st.solver_time += time.perf_counter() - t0
        st.solver_calls += 1
        return r

    def _solve(self, extra=()):
        """Satisfiability of path condition + extra.  -> (result, model or None).

        Linear mode: the incremental solver.  Nonlinear mode: a fresh
        (tactic-selecting) solver on the cone of influence of ``extra``; the
        returned model is completed with the current path model outside it."""
        extra = list(extra)
        if not self.ex.nonlinear:
            r = self._check(*extra)
            return r, (self.solver.model() if r == z3.sat else None)
        st = self.ex.stats
        if extra and self.model is not None:
            probe = extra[0] if len(extra) == 1 else z3.And(*extra)
            sel, vs = self._cone(probe)
            base = self.model
        else:
            sel, vs, base = list(self.pc), None, None
        res, mod = z3.unknown, None
        for mk in (lambda: z3.Solver(), lambda: z3.Tactic('qfnra-nlsat').solver()):
            try:
                s = mk()
                s.set('timeout', self.ex.branch_timeout_ms)
                s.add(*sel)
                s.add(*extra)
                t0 = time.perf_counter()
                r = s.check()
                st.solver_time += time.perf_counter() - t0
                st.solver_calls += 1
            except z3.Z3Exception:
                continue
            if r == z3.sat:
                m = s.model()
                return r, (MergedModel(m, vs, base) if vs is not None else m)
            if r == z3.unsat:
                return r, None
        return res, mod

    def assume(self, f):
        """Add a constraint (precondition or stub contract) to the path condition."""
        if isinstance(f, bool):
            if not f:
                raise PathAbort()
            return
        if isinstance(f, SymBool):
            f = f.e
        self.solver.add(f)
        self.pc.append(f)
        if self.model is not None:
            try:
                if not z3.is_true(self.model.eval(f, model_completion=True)):
                    self.model = None
            except z3.Z3Exception:
                self.model = None

    def feasible(self):
        r, m = self._solve()
        if r == z3.sat:
            self.model = m
        return r != z3.unsat

    def _ensure_model(self):
        if self.model is None:
            r, m = self._solve()
            if r == z3.sat:
                self.model = m
            elif r == z3.unsat:
                raise PathAbort()
        return self.model

    def _push(self, c):
        self.solver.add(c)
        self.pc.append(c)
        self.decided.append(c)

    def decide(self, cond):
        cond = z3.simplify(cond)
        if z3.is_true(cond):
            return True
        if z3.is_false(cond):
            return False
        i = self.pos
        self.pos += 1
        st = self.ex.stats
        if i < len(self.trail):
            ent = self.trail[i]
            v = ent[0]
            self._push(cond if v else z3.Not(cond))
            if i == len(self.trail) - 1:
                self.model = ent[1]
            st.forced += 1
            return v
        if self.ex.split_depth is not None and i >= self.ex.split_depth:
            raise PathCut()
        st.decisions += 1
        m = self._ensure_model()
        mv = None
        if m is not None:
            try:
                ev = m.eval(cond, model_completion=True)
                mv = True if z3.is_true(ev) else (False if z3.is_false(ev) else None)
            except z3.Z3Exception:
                mv = None
        ncond = z3.Not(cond)
        if mv is None:
            rt, mt = self._solve([cond])
            rf, mf = self._solve([ncond])
            t_ok, f_ok = rt != z3.unsat, rf != z3.unsat
            if not t_ok and not f_ok:
                raise PathAbort()
        elif mv:
            t_ok, mt = True, m
            rf, mf = self._solve([ncond])
            f_ok = rf != z3.unsat
        else:
            f_ok, mf = True, m
            rt, mt = self._solve([cond])
            t_ok = rt != z3.unsat
        if t_ok:
            take, tm = True, mt
            alts = [(False, mf)] if f_ok else []
        else:
            take, tm = False, mf
            alts = []
        self.trail.append([take, tm, alts])
        self._push(cond if take else ncond)
        self.model = tm
        return take

    def concretize(self, e):
        e = z3.simplify(e)
        if z3.is_int_value(e):
            return e.as_long()
        i = self.pos
        self.pos += 1
        st = self.ex.stats
        if i < len(self.trail):
            ent = self.trail[i]
            v = ent[0]
            self._push(e == v)
            if i == len(self.trail) - 1:
                self.model = ent[1]
            st.forced += 1
            return v
        if self.ex.split_depth is not None and i >= self.ex.split_depth:
            raise PathCut()
        st.concretizations += 1
        vals = []
        excl = []
        first = True
        while True:
            if first and self.model is not None:
                m, r = self.model, z3.sat
            else:
                r, m = self._solve(excl if excl else [z3.BoolVal(True)] if self.ex.nonlinear and False else excl)
            first = False
            if r == z3.unknown:
                raise Unsupported("solver gave 'unknown' while enumerating values of %s" % (e,))
            if r == z3.unsat:
                break
            v = m.eval(e, model_completion=True).as_long()
            vals.append((v, m))
            excl.append(e != v)
            if len(vals) > self.ex.max_fanout:
                raise Unsupported("more than %d feasible values for %s: add a bound" %
                                  (self.ex.max_fanout, e))
        if not vals:
            raise PathAbort()
        vals.sort(key=lambda t: t[0])
        (v, m) = vals[0]
        self.trail.append([v, m, vals[1:]])
        self._push(e == v)
        self.model = m
        return v

    # ---- obligations
    def prove(self, name, formula, detail=None, parts=None):
        st = self.ex.stats
        t0 = st.solver_time
        try:
            return self._prove(name, formula, detail, parts)
        finally:
            rec = st.by_name.get(name)
            if rec is not None and len(rec) > 4:
                rec[4] += st.solver_time - t0

    def _prove(self, name, formula, detail=None, parts=None):
        """Discharge ``formula`` under the path condition.

        parts: optional dict label -> sub-formula, evaluated under a
        counterexample model to say which conjunct failed."""
        ex = self.ex
        st = ex.stats
        rec = st.by_name.setdefault(name, [0, 0, 0, 0, 0.0])
        self.reached.add(name)
        _t_start = st.solver_time
        st.obligations += 1
        rec[0] += 1
        if isinstance(formula, SymBool):
            formula = formula.e
        if isinstance(formula, bool):
            if formula:
                st.discharged += 1
                rec[1] += 1
                return True
            m = self._ensure_model()
            if self.norm_hints or self.ex.robust:
                # a replayable model of this path: normalised / with margins where possible
                extra = list(self.norm_hints)
                if self.ex.robust:
                    extra += [strengthen(f) for f in self.decided]
                r2, m2 = self._solve(extra) if extra else (z3.unknown, None)
                if r2 == z3.sat:
                    m = m2
                elif self.ex.robust and self.norm_hints:
                    r2, m2 = self._solve(list(self.norm_hints))
                    if r2 == z3.sat:
                        m = m2
            self._record_cex(name, m, detail, parts, concrete=True)
            st.violated += 1
            rec[2] += 1
            return False
        formula = z3.simplify(formula)
        if z3.is_true(formula):
            st.discharged += 1
            rec[1] += 1
            return True
        neg = z3.Not(formula)
        r = z3.unknown
        if ex.nonlinear:
            r, m = self._fresh_check(neg)
        if r == z3.unknown:
            old_to = ex.branch_timeout_ms
            self.solver.set('timeout', ex.prove_timeout_ms)
            try:
                self.solver.push()
                self.solver.add(neg)
                r = self._check()
                m = self.solver.model() if r == z3.sat else None
                self.solver.pop()
            finally:
                self.solver.set('timeout', old_to)
            if r == z3.unknown and not ex.nonlinear:
                r, m = self._fresh_check(neg)
        if r == z3.unsat:
            st.discharged += 1
            rec[1] += 1
            if ex.dump_smt and len(ex.smt_dumps) < ex.dump_smt:
                ex.smt_dumps.append((name, self._smt2(neg)))
            return True
        if r == z3.sat:
            if self.norm_hints or self.ex.robust:
                extra = [neg] + list(self.norm_hints)
                if self.ex.robust:
                    extra += [strengthen(f) for f in self.decided] + [strengthen(neg)]
                r2, m2 = self._solve(extra)
                if r2 == z3.sat:
                    m = m2
                elif self.ex.robust and self.norm_hints:
                    r2, m2 = self._solve([neg] + list(self.norm_hints))
                    if r2 == z3.sat:
                        m = m2
            self._record_cex(name, m, detail, parts)
            st.violated += 1
            rec[2] += 1
            return False
        st.inconclusive += 1
        rec[3] += 1
        ex.inconclusive.append({'obligation': name, 'config': ex.config_name,
                                'path': st.paths, 'detail': jsonable(detail)})
        return None

    def _smt2(self, neg):
        s = z3.Solver()
        s.add(*self.pc)
        s.add(neg)
        return s.to_smt2()

    def _cone(self, neg):
        """Path-condition conjuncts in the cone of influence of ``neg``
        (transitively sharing variables).  The rest of the path condition is
        satisfiable (the path is feasible) and variable-disjoint, so the
        verdict of the reduced query is the verdict of the full one."""
        vs = set(term_vars(neg))
        rest = [(f, term_vars(f)) for f in self.pc]
        sel = []
        changed = True
        while changed:
            changed = False
            keep = []
            for (f, fv) in rest:
                if fv & vs:
                    sel.append(f)
                    if not fv <= vs:
                        vs |= fv
                        changed = True
                else:
                    keep.append((f, fv))
            rest = keep
        return sel, frozenset(vs)

    def _fresh_check(self, neg):
        st = self.ex.stats
        sel, vs = self._cone(neg)
        for mk in (lambda: z3.Solver(),
                   lambda: z3.Tactic('qfnra-nlsat').solver()):
            try:
                s = mk()
                s.set('timeout', self.ex.prove_timeout_ms)
                s.add(*sel)
                s.add(neg)
                t0 = time.perf_counter()
                r = s.check()
                st.solver_time += time.perf_counter() - t0
                st.solver_calls += 1
                if r == z3.sat:
                    pm = None
                    try:
                        pm = self._ensure_model()
                    except PathAbort:
                        pm = None
                    return r, MergedModel(s.model(), vs, pm)
                if r == z3.unsat:
                    return r, None
            except z3.Z3Exception:
                continue
        return z3.unknown, None

    def witness(self, m=None):
        m = m or self._ensure_model()
        if m is None:
            return None
        return {n: model_value(m, t) for n, t in self.inputs.items()}

    def eval(self, m, v):
        """Value of scalar/proxy v under model m (python value)."""
        if isinstance(v, Sym):
            return model_value(m, lift(v)[0])
        if isinstance(v, z3.ExprRef):
            return model_value(m, v)
        return v

    def _record_cex(self, name, m, detail, parts, concrete=False):
        ex = self.ex
        if len(ex.counterexamples) >= ex.max_cex:
            return
        failed = []
        if parts and m is not None:
            for label, f in parts.items():
                if isinstance(f, SymBool):
                    f = f.e
                if isinstance(f, bool):
                    if not f:
                        failed.append(label)
                    continue
                try:
                    if z3.is_false(m.eval(f, model_completion=True)):
                        failed.append(label)
                except z3.Z3Exception:
                    pass
        if callable(detail):
            try:
                detail = detail(m)
            except Exception as exc:  # pragma: no cover
                detail = {'detail_error': repr(exc)}
        ex.counterexamples.append({
            'obligation': name,
            'config': ex.config_name,
            'params': jsonable(ex.config_params),
            'inputs': jsonable(self.witness(m)) if m is not None else None,
            'notes': jsonable(self.notes),
            'failed_parts': failed,
            'detail': jsonable(detail),
        })


class Explorer:
    """Depth-first exploration of all feasible paths of ``fn(ctx)``."""

    def __init__(self, config_name='', config_params=None, branch_timeout_ms=20000,
                 prove_timeout_ms=60000, max_fanout=64, max_paths=None,
                 max_cex=5, split_depth=None, prefix=None, dump_smt=0,
                 witness_every=0, seed=0, nonlinear=False, robust=False, fork_ite=False, purify_div=False):
        self.config_name = config_name
        self.config_params = config_params or {}
        self.branch_timeout_ms = branch_timeout_ms
        self.prove_timeout_ms = prove_timeout_ms
        self.max_fanout = max_fanout
        self.max_paths = max_paths
        self.max_cex = max_cex
        self.split_depth = split_depth
        self.prefix = prefix or []
        self.stats = Stats()
        self.counterexamples = []
        self.inconclusive = []
        self.errors = []
        self.reached = {}
        self.prefixes = []          # collected when split_depth is set
        self.path_witnesses = []    # sampled path models with outputs
        self.witness_every = witness_every
        self.dump_smt = dump_smt
        self.smt_dumps = []
        self.reset_hooks = []
        self.truncated = False
        self.seed = seed
        self.nonlinear = nonlinear
        self.robust = robust
        self.witness_skipped = 0
        self.fork_ite = fork_ite
        self.purify_div = purify_div

    def run(self, fn):
        global _CTX
        # trail entries for the prefix carry no alternatives (never backtracked)
        trail = [[v, None, []] for v in self.prefix]
        base = len(trail)
        while True:
            for h in self.reset_hooks:
                h()
            c = PathCtx(self, trail)
            _CTX = c
            status = 'ok'
            try:
                fn(c)
            except PathCut:
                status = 'cut'
                self.stats.cut += 1
                self.prefixes.append([e[0] for e in c.trail[:c.pos - 1]] if False else
                                     [e[0] for e in c.trail])
            except PathAbort:
                status = 'abort'
            except Unsupported as exc:
                status = 'unsupported'
                self.errors.append({'kind': 'UNSUPPORTED', 'config': self.config_name,
                                    'message': str(exc),
                                    'trace': traceback.format_exc(limit=12)})
            except HarnessError as exc:
                status = 'error'
                self.errors.append({'kind': 'HARNESS', 'config': self.config_name,
                                    'message': str(exc),
                                    'trace': traceback.format_exc(limit=12)})
            except Exception as exc:  # unexpected exception escaping the harness
                status = 'error'
                self.errors.append({'kind': 'EXCEPTION', 'config': self.config_name,
                                    'message': repr(exc),
                                    'trace': traceback.format_exc(limit=16)})
            finally:
                _CTX = None
            if status == 'ok':
                self.stats.paths += 1
                for n in c.reached:
                    self.reached[n] = self.reached.get(n, 0) + 1
                if self.witness_every and (self.stats.paths % self.witness_every == 1
                                           or self.witness_every == 1):
                    self._sample_witness(c)
            if status in ('unsupported', 'error') and len(self.errors) >= 3:
                self.truncated = True
                break
            trail = c.trail
            # backtrack
            while len(trail) > base and not trail[-1][2]:
                trail.pop()
            if len(trail) <= base:
                break
            ent = trail[-1]
            (v, m) = ent[2].pop(0)
            ent[0], ent[1] = v, m
            if self.max_paths is not None and self.stats.paths >= self.max_paths:
                self.truncated = True
                break
            if getattr(self, 'stop_after_violations', None) and self.stats.violated >= self.stop_after_violations:
                # hundreds of failed obligations in one task: the tree under test is broken for good; the
                # counterexamples recorded so far go to replay, exploring the rest adds nothing
                # (truncation only matters for the verdict when nothing reproduces)
                self.truncated = True
                break
        return self

    def _sample_witness(self, c):
        if len(self.path_witnesses) >= 400:
            return
        global _CTX
        _CTX = c
        try:
            m = None
            if c.norm_hints or self.robust:
                extra = list(c.norm_hints)
                if self.robust:
                    extra += [strengthen(f) for f in c.decided]
                r, m = c._solve(extra)
                if r != z3.sat:
                    self.witness_skipped += 1
                    return          # no replayable witness on this path
            else:
                m = c._ensure_model()
        except PathAbort:
            m = None
        finally:
            _CTX = None
        if m is None:
            return
        out = {}
        for k, v in c.outputs.items():
            out[k] = jsonable(_eval_struct(c, m, v))
        self.path_witnesses.append({
            'config': self.config_name,
            'params': jsonable(self.config_params),
            'inputs': jsonable(c.witness(m)),
            'notes': jsonable(c.notes),
            'outputs': out,
        })

    def summary(self):
        return {
            'config': self.config_name,
            'params': jsonable(self.config_params),
            'stats': self.stats,
            'counterexamples': self.counterexamples,
            'inconclusive': self.inconclusive,
            'errors': self.errors,
            'reached': self.reached,
            'prefixes': self.prefixes,
            'path_witnesses': self.path_witnesses,
            'smt_dumps': self.smt_dumps,
            'truncated': self.truncated,
        }


def _eval_struct(c, m, v):
    if isinstance(v, dict):
        return {k: _eval_struct(c, m, x) for k, x in v.items()}
    if isinstance(v, (list, tuple)):
        return [_eval_struct(c, m, x) for x in v]
    if hasattr(v, '_symnp_tolist'):
        return _eval_struct(c, m, v._symnp_tolist())
    return c.eval(m, v)
