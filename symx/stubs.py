"""symx.stubs -- nondeterministic contract stubs for the environment
(LAPACK, the OS process pool, the random generator) and helpers to declare
symbolic inputs.  Every stub is part of the claim and is listed in evidence.
"""

import itertools

import z3

from . import core, symnp
from .core import SymInt, SymReal, SymBool, Unsupported

np = symnp


# ---- symbolic inputs -----------------------------------------------------------

def sym_array(c, name, shape, kind='real', owner='caller', lo=None, hi=None, writeable=True):
    shape = tuple(shape)
    vals = []
    for idx in itertools.product(*[range(s) for s in shape]):
        nm = name + ''.join('_%d' % i for i in idx)
        if kind == 'real':
            vals.append(c.real(nm, lo, hi))
        elif kind == 'int':
            vals.append(c.int(nm, lo, hi))
        elif kind == 'bits':
            vals.append(c.bits(nm))
        elif kind == 'fp':
            vals.append(c.fp(nm))
        else:
            raise ValueError(kind)
    a = np.ndarray._new(vals, shape, np.int64 if kind == 'int' else np.float64, owner=owner)
    a._b.writeable = writeable
    return a


def sym_symmetric(c, name, n, owner='caller', kind='real'):
    vals = [[None] * n for _ in range(n)]
    for i in range(n):
        for j in range(i, n):
            nm = '%s_%d_%d' % (name, i, j)
            v = c.real(nm) if kind == 'real' else c.bits(nm)
            vals[i][j] = v
            vals[j][i] = v
    return np.ndarray._new([vals[i][j] for i in range(n) for j in range(n)], (n, n), np.float64, owner=owner)


def const_array(values, shape=None, owner='caller', dtype=None):
    a = np.array(values, dtype=dtype)
    a._b.owner = owner
    if shape is not None:
        a = a.reshape(shape)
    return a


def snapshot(a):
    """Term-level snapshot of an array or list (for 'not modified' obligations)."""
    if isinstance(a, np.ndarray):
        return ('nd', a.shape, list(a._b.data))
    if isinstance(a, list):
        return ('list', [snapshot(x) for x in a])
    if isinstance(a, tuple):
        return ('tuple', [snapshot(x) for x in a])
    return ('val', a)


def _b(e):
    e = z3.simplify(e)
    if z3.is_true(e):
        return True
    if z3.is_false(e):
        return False
    return e


def same_terms(x, y):
    """True / False / z3 formula saying two scalars are the same value."""
    if x is y:
        return True
    if isinstance(x, core.Sym) or isinstance(y, core.Sym):
        if isinstance(x, core.SymBits) or isinstance(y, core.SymBits):
            if isinstance(x, core.SymBits) and isinstance(y, core.SymBits):
                return _b(x.e == y.e)
            bits, other = (x, y) if isinstance(x, core.SymBits) else (y, x)
            if isinstance(other, core.SymFP):
                # a value computed from payloads: the same bits iff it is the same binary64 datum
                # and not a NaN (an arithmetic NaN need not keep the payload)
                return _b(z3.And(z3.fpBVToFP(bits.e, core.FP64) == other.e, z3.Not(z3.fpIsNaN(other.e))))
            return False
        if isinstance(x, core.SymFP) or isinstance(y, core.SymFP):
            # bit-for-bit (NaN == NaN, +0 != -0)
            return _b(core.fp_const(x) == core.fp_const(y))
        if isinstance(x, SymBool) or isinstance(y, SymBool):
            return _b(core.as_bool(x) == core.as_bool(y))
        if x is None or y is None:
            return False
        return _b(core.as_real(x) == core.as_real(y))
    if x is None or y is None:
        return x is y
    return x == y


def unchanged(snap, a):
    """Formula: a's buffer/list equals the snapshot, element by element."""
    kind = snap[0]
    if kind == 'nd':
        if not isinstance(a, np.ndarray) or a.shape != snap[1]:
            return False
        cur = a._b.data
        if len(cur) != len(snap[2]):
            return False
        fs = [same_terms(x, y) for x, y in zip(snap[2], cur)]
    elif kind in ('list', 'tuple'):
        if len(a) != len(snap[1]):
            return False
        fs = [unchanged(s, x) for s, x in zip(snap[1], a)]
    else:
        fs = [same_terms(snap[1], a)]
    return conj(fs)


def conj(fs):
    out = []
    for f in fs:
        if isinstance(f, SymBool):
            f = f.e
        if isinstance(f, bool):
            if not f:
                return False
            continue
        out.append(f)
    if not out:
        return True
    return z3.And(*out) if len(out) > 1 else out[0]


def disj(fs):
    out = []
    for f in fs:
        if isinstance(f, SymBool):
            f = f.e
        if isinstance(f, bool):
            if f:
                return True
            continue
        out.append(f)
    if not out:
        return False
    return z3.Or(*out) if len(out) > 1 else out[0]


def implies(a, b):
    if isinstance(a, SymBool):
        a = a.e
    if isinstance(b, SymBool):
        b = b.e
    if isinstance(a, bool):
        return b if a else True
    if isinstance(b, bool):
        return True if b else z3.Not(a)
    return z3.Implies(a, b)


def R(v):
    return core.as_real(v)


def I(v):
    return core.as_int(v)


def select(vals, idx):
    """vals[idx] as an If-chain over a symbolic integer index (no forking)."""
    if isinstance(idx, int):
        return vals[idx]
    if isinstance(idx, SymInt) and idx._conc is not None:
        return vals[idx._conc]
    ie = I(idx)
    if all(isinstance(v, (int, SymInt)) and not isinstance(v, bool) for v in vals):
        e = I(vals[-1])
        for k in range(len(vals) - 2, -1, -1):
            e = z3.If(ie == k, I(vals[k]), e)
        return core.mk_int(e)
    e = R(vals[-1])
    for k in range(len(vals) - 2, -1, -1):
        e = z3.If(ie == k, R(vals[k]), e)
    return core.mk_real(e)


def rsum(terms):
    terms = list(terms)
    if not terms:
        return z3.RealVal(0)
    if len(terms) == 1:
        return terms[0]
    return z3.Sum(terms)


# ---- LAPACK contracts ------------------------------------------------------------

def _matrix_rows(M):
    M = np.asarray(M)
    if M.ndim == 0:
        return [[M.item()]]
    if M.ndim != 2 or M.shape[0] != M.shape[1]:
        raise np.linalg.LinAlgError("Last 2 dimensions of the array must be square")
    return M.tolist()


def det_exact(M):
    """Exact determinant by cofactor expansion (n <= 4); product of the diagonal
    for a structurally diagonal matrix of any size."""
    rows = _matrix_rows(M)
    n = len(rows)

    def is_zero(v):
        return not isinstance(v, core.Sym) and v == 0
    if all(is_zero(rows[i][j]) for i in range(n) for j in range(n) if i != j):
        r = 1
        for i in range(n):
            r = r * rows[i][i]
        return r
    if n > 4:
        raise Unsupported("determinant contract stub: dense matrix with n=%d > 4" % n)

    def det(rs):
        if len(rs) == 1:
            return rs[0][0]
        if len(rs) == 2:
            return rs[0][0] * rs[1][1] - rs[0][1] * rs[1][0]
        tot = 0
        for j in range(len(rs)):
            minor = [r[:j] + r[j + 1:] for r in rs[1:]]
            t = rs[0][j] * det(minor)
            tot = tot + t if j % 2 == 0 else tot - t
        return tot
    return det(rows)


def norm_exact(v):
    """||v||_2 / Frobenius: fresh r >= 0 with r^2 = sum of squares."""
    v = np.asarray(v)
    vals = v._flat()
    if not any(isinstance(x, core.Sym) for x in vals):
        import math
        return math.sqrt(sum(float(x) * float(x) for x in vals))
    s = 0
    for x in vals:
        s = s + x * x
    return core.sym_sqrt(s)


class NormOracle:
    """norm stub for the spread ranking: an arbitrary non-negative real per call."""

    def __init__(self, prefix='spread'):
        self.prefix = prefix
        self.calls = []

    def __call__(self, v):
        c = core.ctx()
        r = c.real('%s_%d' % (self.prefix, len(self.calls)), 0)
        self.calls.append((v, r))
        return r


def inv_uninterpreted(M):
    """INV(M): an opaque matrix (fresh reals), recorded."""
    c = core.ctx()
    M = np.asarray(M)
    n = 1 if M.ndim == 0 else M.shape[0]
    vals = [SymReal(c.fresh_real('inv')) for _ in range(n * n)]
    return np.ndarray._new(vals, (n, n), np.float64)


def _opaque_det(M):
    c = core.ctx()
    d = c.fresh_real('det')
    c.assume(d > 0)
    return SymReal(d)


def _opaque_slogdet(M):
    return (1.0, SymReal(core.ctx().fresh_real('logdet')))


def _opaque_norm(v):
    c = core.ctx()
    r = c.fresh_real('norm')
    c.assume(r >= 0)
    return SymReal(r)


def cholesky_exact(M):
    """Lower-triangular L with L L^T = M (exact real arithmetic): closed form
    for structurally diagonal matrices of any size and for dense n <= 3."""
    rows = _matrix_rows(M)
    n = len(rows)

    def is_zero(v):
        return not isinstance(v, core.Sym) and v == 0
    L = [[0.0] * n for _ in range(n)]
    if all(is_zero(rows[i][j]) for i in range(n) for j in range(n) if i != j):
        memo = []
        for i in range(n):
            v = rows[i][i]
            hit = [s for (w, s) in memo if w is v]
            if hit:
                L[i][i] = hit[0]
            else:
                L[i][i] = np.sqrt(v)
                memo.append((v, L[i][i]))
        return np.array(L)
    if n > 3:
        raise Unsupported("cholesky contract stub: dense matrix with n=%d > 3" % n)
    for i in range(n):
        for j in range(i + 1):
            acc = rows[i][j]
            for k in range(j):
                acc = acc - L[i][k] * L[j][k]
            L[i][j] = np.sqrt(acc) if i == j else acc / L[j][j]
    return np.array(L)


def default_linalg():
    """Opaque defaults for every LAPACK entry a property-preserving edit of
    the repo may switch to (det <-> slogdet, ...): a harness that does not care
    about a value must not trip over which routine produced it."""
    return {'det': _opaque_det, 'slogdet': _opaque_slogdet, 'inv': inv_uninterpreted, 'pinv': inv_uninterpreted,
            'norm': _opaque_norm, 'cholesky': cholesky_exact}


def install_linalg(**impl):
    np.linalg._impl.clear()
    np.linalg._impl.update(default_linalg())
    np.linalg._impl.update(impl)


# ---- random.sample ------------------------------------------------------------

class StubRandom:
    """random.sample(range(n), m): any m pairwise-distinct indices in [0, n)."""

    def __init__(self):
        self.draws = []

    def sample(self, population, k):
        c = core.ctx()
        n = len(population)
        k = int(k)
        if k > n or k < 0:
            raise ValueError("Sample larger than population or is negative")
        idx = [c.int('draw_%d_%d' % (len(self.draws), j), 0, n - 1) for j in range(k)]
        for a in range(k):
            for b in range(a + 1, k):
                c.assume(I(idx[a]) != I(idx[b]))
        self.draws.append((n, k, idx))
        pop = list(population)
        return [pop[i] for i in idx]

    def __getattr__(self, name):
        def f(*a, **k):
            raise Unsupported("random.%s is not stubbed" % name)
        return f


# ---- multiprocessing.Pool --------------------------------------------------------

class InjectedFault(Exception):
    pass


class _AsyncResult:
    def __init__(self, pool, tid, fn, args, kwds, callback=None, error_callback=None):
        self.pool = pool
        self.tid = tid
        self.fn = fn
        self.args = tuple(args)
        self.kwds = dict(kwds or {})
        self.callback = callback
        self.error_callback = error_callback
        self.done = False
        self.value = None
        self.exc = None

    def _complete(self):
        if self.done:
            return
        self.done = True
        self.pool.completion_order.append(self.tid)
        try:
            if self.pool.fault is not None and self.pool.fault(self):      # may itself raise the fault
                raise InjectedFault("injected fault in task %d" % self.tid)
            self.value = self.fn(*self.args, **self.kwds)
        except core.PathAbort:
            raise
        except core.Unsupported:
            raise
        except Exception as exc:       # what a worker would send back
            self.exc = exc
            # a worker's exception reaches the parent by pickle: the parent's result-handler thread rebuilds it
            # with type(e)(*e.args); an exception class whose __init__ does not accept that kills the thread,
            # the result never arrives and the caller waits for ever
            try:
                import pickle
                blob = pickle.dumps(exc)
            except Exception:
                blob = None                # (symbolic payloads etc.: transport not modelled for this one)
            if blob is not None:
                try:
                    pickle.loads(blob)
                except Exception as rebuild_exc:
                    self.pool.handler_dead = "the worker's %s cannot be rebuilt in the parent: %r" % (
                        type(exc).__name__, rebuild_exc)
                    return
            if self.error_callback:
                try:
                    self.error_callback(exc)
                except Exception as cb_exc:
                    # multiprocessing runs the callbacks on the pool's result-handler thread BEFORE the
                    # result is published; a callback that raises kills that thread and the result (and
                    # every later one) is never delivered: whoever waits for it waits for ever
                    self.pool.handler_dead = 'error_callback raised %r' % (cb_exc,)
            return
        if self.callback:
            try:
                self.callback(self.value)
            except Exception as cb_exc:
                self.pool.handler_dead = 'callback raised %r' % (cb_exc,)

    def get(self, timeout=None):
        self.pool._drive(self)
        if getattr(self.pool, 'handler_dead', None):
            if timeout is not None:
                import multiprocessing
                raise multiprocessing.TimeoutError()
            raise Hang("AsyncResult.get() never returns: " + self.pool.handler_dead)
        if self.exc is not None:
            raise self.exc
        return self.value

    def wait(self, timeout=None):
        self.pool._drive(self)
        if getattr(self.pool, 'handler_dead', None) and timeout is None:
            raise Hang("AsyncResult.wait() never returns: " + self.pool.handler_dead)

    def ready(self):
        # a task that has been submitted may have finished at any time: under the symbolic
        # schedule each poll of a pending task forks on "it has completed by now"
        if not self.done and StubPool.schedule == 'symbolic':
            c = core.ctx()
            if bool(c.bool(c.fresh_name('ready'))):
                self._complete()
        return self.done

    def successful(self):
        if not self.done:
            raise ValueError("not ready")
        return self.exc is None


class Hang(BaseException):
    """The modelled call would block for ever (not an Exception: nothing in the code under test can
    catch a hang)."""


class StubPool:
    """multiprocessing.Pool without processes.  Submitted tasks complete in an
    order chosen by the solver: whenever a result is demanded, the not-yet-
    completed tasks submitted so far are completed in a permutation picked by
    symbolic ranks (every permutation is a feasible path)."""

    instances = []
    schedule = 'symbolic'      # 'symbolic' | 'fifo' | 'lifo'
    fault = None               # fn(task) -> bool: inject a fault into this task

    def __init__(self, processes=None, *a, **k):
        self.processes = processes
        self.tasks = []
        self.completion_order = []
        self.closed = False
        self.joined = False
        self.terminated = False
        self.fault = StubPool.fault
        self.handler_dead = None
        StubPool.instances.append(self)

    def apply_async(self, func, args=(), kwds=None, callback=None, error_callback=None):
        if self.closed or self.terminated:
            raise ValueError("Pool not running")
        t = _AsyncResult(self, len(self.tasks), func, args, kwds, callback, error_callback)
        self.tasks.append(t)
        return t

    def apply(self, func, args=(), kwds=None):
        return self.apply_async(func, args, kwds).get()

    def map_async(self, func, iterable, chunksize=None, callback=None, error_callback=None):
        rs = [self.apply_async(func, (x,)) for x in iterable]
        pool = self

        class M:
            def get(self_, timeout=None):
                return [r.get() for r in rs]

            def wait(self_, timeout=None):
                for r in rs:
                    r.wait()

            def ready(self_):
                return all(r.done for r in rs)
        return M()

    def map(self, func, iterable, chunksize=None):
        return self.map_async(func, iterable).get()

    def starmap(self, func, iterable, chunksize=None):
        rs = [self.apply_async(func, tuple(x)) for x in iterable]
        return [r.get() for r in rs]

    def starmap_async(self, func, iterable, chunksize=None, callback=None, error_callback=None):
        rs = [self.apply_async(func, tuple(x)) for x in iterable]

        class M:
            def get(self_, timeout=None):
                return [r.get() for r in rs]
        return M()

    def imap(self, func, iterable, chunksize=1):
        rs = [self.apply_async(func, (x,)) for x in iterable]
        for r in rs:
            yield r.get()

    def imap_unordered(self, func, iterable, chunksize=1):
        rs = [self.apply_async(func, (x,)) for x in iterable]
        if rs:
            self._drive(None)
        order = [t for t in self.completion_order if any(r.tid == t for r in rs)]
        for tid in order:
            yield self.tasks[tid].get()

    def _drive(self, wanted):
        pending = [t for t in self.tasks if not t.done]
        if not pending:
            return
        if StubPool.schedule == 'fifo' or len(pending) == 1:
            order = pending
        elif StubPool.schedule == 'lifo':
            order = list(reversed(pending))
        else:
            c = core.ctx()
            order = []
            rest = list(pending)
            while len(rest) > 1:
                k = c.int(c.fresh_name('sched'), 0, len(rest) - 1)
                order.append(rest.pop(int(k)))
            order.append(rest[0])
        for t in order:
            t._complete()

    def close(self):
        self.closed = True

    def join(self):
        if not (self.closed or self.terminated):
            raise ValueError("Pool is still running")
        self._drive(None)
        self.joined = True

    def terminate(self):
        self.terminated = True

    def __enter__(self):
        return self

    def __exit__(self, *a):
        self.terminate()
        return False

    @property
    def released(self):
        return self.terminated or (self.closed and self.joined)


class StubMultiprocessing:
    """Stands in for the ``multiprocessing`` module inside main_loop."""
    Pool = StubPool

    class _PoolModule:
        """``multiprocessing.pool``: every executor a refactor may pick (process pool, thread pool) is
        the same in-process stub; a real ThreadPool would run the symbolic task on another thread and
        swallow the engine's path-steering exceptions (the caller would wait for ever)."""
        Pool = StubPool
        ThreadPool = StubPool

        def __getattr__(self, name):
            import multiprocessing.pool as mpp
            return getattr(mpp, name)

    def __init__(self):
        self.pool = StubMultiprocessing._PoolModule()
        self.dummy = self.pool

    def cpu_count(self):
        return 16

    def get_context(self, *a):
        return self

    def active_children(self):
        return []
