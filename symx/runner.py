"""symx.runner -- runs one property's harness: configurations in parallel,
vacuity guards, counterexample replay on the real build, known findings,
path-witness validation, evidence.

Exit codes: 0 property held on everything explored (known findings printed),
1 replay-confirmed violation not listed as known, 2 inconclusive (a solver
query had no verdict inside its budget), 3 harness error (engine mismatch,
unsupported construct, vacuity).
"""

import hashlib
import importlib
import json
import multiprocessing
import os
import subprocess
import sys
import time
import traceback

from . import core, loader, symnp

VERIF = os.path.dirname(os.path.dirname(os.path.abspath(__file__)))
REAL_PY = os.environ.get('VERIF_REAL_PYTHON', '/venv/bin/python')

_CONFIGS = []
_CHECK = None


class Config:
    def __init__(self, name, fn, params=None, split=None, witness_every=0, max_paths=None,
                 prove_timeout_ms=120000, branch_timeout_ms=30000, max_fanout=64, dump_smt=0,
                 expect_paths=True, nonlinear=False, robust=False, fork_ite=False, purify_div=False):
        self.name = name
        self.fn = fn
        self.params = params or {}
        self.split = split
        self.witness_every = witness_every
        self.max_paths = max_paths
        self.prove_timeout_ms = prove_timeout_ms
        self.branch_timeout_ms = branch_timeout_ms
        self.max_fanout = max_fanout
        self.dump_smt = dump_smt
        self.expect_paths = expect_paths
        self.nonlinear = nonlinear
        self.robust = robust
        self.fork_ite = fork_ite
        self.purify_div = purify_div


_STOP_AFTER = None      # quick tier, properties without known findings: stop a task after this many failed obligations


def set_library_logging(debug):
    import logging
    lg = logging.getLogger('fast_ticc')
    if not any(isinstance(h, logging.NullHandler) for h in lg.handlers):
        lg.addHandler(logging.NullHandler())
    lg.propagate = False
    lg.setLevel(logging.DEBUG if debug else logging.WARNING)
    for name, sub in list(logging.root.manager.loggerDict.items()):
        if name.startswith('fast_ticc.') and isinstance(sub, logging.Logger):
            sub.setLevel(logging.NOTSET)


def _run_task(task):
    (idx, prefix, split_depth) = task
    cfg = _CONFIGS[idx]
    loader.restart_monitoring()
    before = set(loader.EXECUTED)
    t0 = time.time()
    ex = core.Explorer(cfg.name, cfg.params, branch_timeout_ms=cfg.branch_timeout_ms,
                       prove_timeout_ms=cfg.prove_timeout_ms, max_fanout=cfg.max_fanout,
                       max_paths=cfg.max_paths, split_depth=split_depth, prefix=prefix,
                       witness_every=cfg.witness_every, dump_smt=cfg.dump_smt,
                       nonlinear=cfg.nonlinear, robust=cfg.robust, fork_ite=cfg.fork_ite, purify_div=cfg.purify_div)
    ex.stop_after_violations = _STOP_AFTER
    ex.reset_hooks.append(loader.clear_caches)
    ex.reset_hooks.append(symnp._reset_write_log)
    if _CHECK is not None and hasattr(_CHECK, 'reset'):
        ex.reset_hooks.append(_CHECK.reset)
    def body(c):
        # the library's diagnostic logging must not alter behaviour: where the harness asks for it, the
        # log level (DEBUG on / off for every fast_ticc logger) is one more symbolic input of the path
        if getattr(_CHECK, 'fork_logging', False):
            dbg = bool(c.bool('debug_logging'))      # a Bool, not an Int: keeps nonlinear paths in pure real arithmetic
            c.notes['debug_logging'] = dbg
            set_library_logging(dbg)
        else:
            set_library_logging(False)
        return cfg.fn(c, **cfg.params)
    try:
        ex.run(body)
    except BaseException as exc:  # noqa
        ex.errors.append({'kind': 'ENGINE', 'config': cfg.name, 'message': repr(exc),
                          'trace': traceback.format_exc(limit=20)})
    s = ex.summary()
    s['idx'] = idx
    s['wall'] = time.time() - t0
    s['executed'] = sorted(set(loader.EXECUTED) - before | set(loader.EXECUTED))
    return s


def explore(configs, jobs=None, deadline=None):
    """Run all configs (with optional prefix splitting) on a fork pool."""
    global _CONFIGS
    _CONFIGS = list(configs)
    jobs = jobs or int(os.environ.get('VERIF_JOBS', '0')) or min(16, os.cpu_count() or 4)
    tasks = [(i, None, cfg.split) for i, cfg in enumerate(_CONFIGS)]
    results = []
    ctx = multiprocessing.get_context('fork')
    if jobs == 1 or len(tasks) == 0:
        pending = list(tasks)
        while pending:
            t = pending.pop(0)
            s = _run_task(t)
            results.append(s)
            if t[2] is not None:
                for p in s['prefixes']:
                    pending.append((t[0], p, None))
        return results
    with ctx.Pool(jobs, maxtasksperchild=None) as pool:
        round1 = pool.imap_unordered(_run_task, tasks, chunksize=1)
        second = []
        for s in round1:
            results.append(s)
            if _CONFIGS[s['idx']].split is not None:
                for p in s['prefixes']:
                    second.append((s['idx'], p, None))
        if second:
            # largest-first is unknown; interleave configs
            for s in pool.imap_unordered(_run_task, second, chunksize=1):
                results.append(s)
    return results


# --------------------------------------------------------------------------

def _sha(obj):
    return hashlib.sha256(json.dumps(obj, sort_keys=True, default=str).encode()).hexdigest()[:12]


REAL_SRC = None     # canary runs replay against a scratch copy of src/ with the edit applied


def real_python(args, timeout=600, env_extra=None):
    env = dict(os.environ)
    env['PYTHONPATH'] = (REAL_SRC or os.path.join(loader.REPO, 'src')) + os.pathsep + VERIF
    env.setdefault('NUMBA_CACHE_DIR', '/tmp/verif_numba_cache')
    env['PYTHONDONTWRITEBYTECODE'] = '1'
    if env_extra:
        env.update(env_extra)
    return subprocess.run([REAL_PY] + args, cwd=VERIF, env=env, capture_output=True, text=True,
                          timeout=timeout)


def replay_file(path, timeout=600):
    """Run a counterexample file against the real build.  -> dict."""
    try:
        p = real_python(['-m', 'replay.run', path], timeout=timeout)
    except subprocess.TimeoutExpired:
        return {'ok': False, 'error': 'replay timed out'}
    out = p.stdout.strip().splitlines()
    for line in reversed(out):
        if line.startswith('REPLAY-RESULT '):
            try:
                return json.loads(line[len('REPLAY-RESULT '):])
            except ValueError:
                break
    return {'ok': False, 'error': 'no replay result', 'stdout': p.stdout[-2000:], 'stderr': p.stderr[-3000:],
            'rc': p.returncode}


_DOCUMENTED_REFUSALS = ('Unable to find a donor cluster', 'ticc_joint_labels', 'ticc_labels',
                        'iteration_limit', 'Cluster needs at least one point')


def same_failure(cex, rep):
    """A replay that 'reproduces' *by raising* is believed only when it is the failure the engine saw:
    the same exception class on both sides, or -- when the engine saw wrong values, not an exception --
    anything but one of the library's documented refusals (which the real build issues, rightly, for
    inputs such as two points and two clusters, whatever the code under test does)."""
    if not rep.get('reproduced'):
        return True
    sig = str(rep.get('signature') or '')
    real_exc = (rep.get('observed') or {}).get('raised')
    if not isinstance(real_exc, str) or not ('raises' in sig or 'rejected' in sig):
        return True
    det = cex.get('detail') if isinstance(cex.get('detail'), dict) else {}
    sym_exc = det.get('raised') or (cex.get('notes') or {}).get('unexpected_exception')

    def cls(x):
        return str(x).split('(')[0].strip()
    if sym_exc:
        return cls(sym_exc) == cls(real_exc)
    return not any(m in real_exc for m in _DOCUMENTED_REFUSALS)


def validate_witnesses(pid, witnesses, timeout=900):
    """Path-witness replay: each path's model is a concrete input; the real
    function is run on it and compared with the symbolic outputs."""
    if not witnesses:
        return {'checked': 0, 'agree': 0, 'disagree': [], 'skipped': 0}
    os.makedirs(os.path.join(VERIF, 'replays', pid), exist_ok=True)
    path = os.path.join(VERIF, 'replays', pid, 'path_witnesses.json')
    with open(path, 'w') as fh:
        json.dump({'property': pid, 'mode': 'validate', 'witnesses': witnesses}, fh)
    r = replay_file(path, timeout=timeout)
    if not r.get('ok', False) and 'checked' not in r:
        return {'checked': 0, 'agree': 0, 'disagree': [], 'skipped': len(witnesses), 'error': r}
    return r


def _anchor_exists(relfile, qualname):
    """Does src/<file> still define a function with that qualified name?"""
    import ast
    path = os.path.join(loader.REPO, relfile)
    try:
        with open(path) as fh:
            tree = ast.parse(fh.read())
    except (OSError, SyntaxError):
        return False
    parts = qualname.split('.')

    def find(nodes, parts):
        for n in nodes:
            if isinstance(n, (ast.FunctionDef, ast.AsyncFunctionDef, ast.ClassDef)) and n.name == parts[0]:
                if len(parts) == 1:
                    return True
                return find(n.body, parts[1:])
        return False
    return find(tree.body, parts)


def load_known_findings():
    p = os.path.join(VERIF, 'known_findings.json')
    if not os.path.exists(p):
        return []
    with open(p) as fh:
        return json.load(fh).get('findings', [])


def main(argv=None):
    global _CHECK
    import argparse
    ap = argparse.ArgumentParser(prog='check')
    ap.add_argument('property', nargs='?')
    ap.add_argument('--tier', default=os.environ.get('VERIF_TIER', 'quick'), choices=['quick', 'thorough'])
    ap.add_argument('--replay', default=None)
    ap.add_argument('--canary', action='store_true', help='apply the harness canary mutation in memory; '
                    'a replay-confirmed violation is then the expected outcome')
    ap.add_argument('--only', default=None, help='substring filter on configuration names (debugging)')
    ap.add_argument('--jobs', type=int, default=None)
    ap.add_argument('--no-evidence', action='store_true')
    a = ap.parse_args(argv)

    if a.replay:
        r = replay_file(os.path.abspath(a.replay))
        print(json.dumps(r, indent=1))
        pid = r.get('property', a.property or '?')
        try:
            with open(os.path.abspath(a.replay)) as fh:
                if not same_failure(json.load(fh), r):
                    print("not the failure the engine saw (exception classes differ, or a documented refusal): "
                          "nothing is claimed")
                    return 3
        except (OSError, ValueError):
            pass
        if r.get('reproduced'):
            print("VIOLATION property=%s replay=%s" % (pid, os.path.abspath(a.replay)))
            return 1
        return 0 if r.get('ok') else 3

    pid = a.property
    if not pid:
        ap.error('property id required')
    seed = int(os.environ.get('VERIF_SEED', '0') or 0)
    t0 = time.time()
    mod = importlib.import_module('harness.' + pid.lower())
    chk = mod.CHECK
    _CHECK = chk
    mutations = None
    scratch = None
    if a.canary:
        global REAL_SRC
        import shutil
        import tempfile
        mutations = chk.canary['edits']
        scratch = tempfile.mkdtemp(prefix='verif_canary_%s_' % pid)
        shutil.copytree(os.path.join(loader.REPO, 'src'), os.path.join(scratch, 'src'),
                        ignore=shutil.ignore_patterns('__pycache__', '*.egg-info'))
        for (rel, old, new) in mutations:
            fp = os.path.join(scratch, 'src', rel)
            with open(fp) as fh:
                txt = fh.read()
            assert txt.count(old) == 1, (rel, old)
            with open(fp, 'w') as fh:
                fh.write(txt.replace(old, new))
        REAL_SRC = os.path.join(scratch, 'src')
    try:
        return _main2(a, pid, chk, mutations, seed, t0)
    finally:
        if scratch:
            import shutil
            shutil.rmtree(scratch, ignore_errors=True)


def _main2(a, pid, chk, mutations, seed, t0):
    try:
        R = loader.load(mutations)
    except Exception as exc:
        print("HARNESS-ERROR property=%s cannot load /repo/src: %r" % (pid, exc))
        traceback.print_exc()
        return 3
    chk.R = R
    chk.seed = seed
    chk.tier = a.tier
    configs = chk.configs(a.tier)
    global _STOP_AFTER
    has_known = any(k.get('property') == pid and k.get('status') == 'known' for k in load_known_findings())
    # hundreds of failed obligations in one exploration task mean the tree under test is broken for good: the
    # counterexamples recorded so far go to replay and the rest of that task is skipped (quick tier only, and
    # never for a property with recorded known findings, whose expected failures would trip the limit)
    _STOP_AFTER = 300 if (a.tier == 'quick' and not has_known and not a.canary) else None
    if a.only:
        configs = [c for c in configs if a.only in c.name]
    results = explore(configs, jobs=a.jobs)
    wall_explore = time.time() - t0

    stats = core.Stats()
    cex, inconc, errors, witnesses, reached = [], [], [], [], {}
    executed = set()
    per_config = {}
    smt_dumps = []
    truncated = False
    for s in results:
        stats.merge(s['stats'])
        cex.extend(s['counterexamples'])
        inconc.extend(s['inconclusive'])
        errors.extend(s['errors'])
        witnesses.extend(s['path_witnesses'])
        smt_dumps.extend(s['smt_dumps'])
        truncated = truncated or s['truncated']
        for k, v in s['reached'].items():
            reached[k] = reached.get(k, 0) + v
        executed.update(tuple(x) for x in s['executed'])
        d = per_config.setdefault(s['config'], {'paths': 0, 'obligations': 0, 'wall_s': 0.0, 'tasks': 0,
                                                'params': s['params']})
        d['paths'] += s['stats'].paths
        d['obligations'] += s['stats'].obligations
        d['wall_s'] = round(d['wall_s'] + s['wall'], 2)
        d['tasks'] += 1
    loader.EXECUTED.update(executed)
    functions = loader.executed_functions()

    problems = []
    # ---- vacuity guards
    for c in configs:
        pc = per_config.get(c.name)
        if c.expect_paths and (pc is None or pc['paths'] == 0):
            problems.append("configuration %s explored no feasible path (precondition unsatisfiable?)" % c.name)
    for name in getattr(chk, 'obligations', []):
        if reached.get(name, 0) == 0 and not a.only:
            problems.append("obligation %s was never reached (vacuous harness)" % name)
    fnames = {(f['file'], f['function']) for f in functions}
    anchors_gone = []
    for (f, fn) in getattr(chk, 'anchors', []):
        if (f, fn) not in fnames and not a.only:
            # an anchor that no longer exists under that name (renamed / inlined by a refactor) is
            # noted, not an alarm; one that exists but never ran means the harness went vacuous
            if _anchor_exists(f, fn):
                problems.append("anchor %s:%s was not executed symbolically" % (f, fn))
            else:
                anchors_gone.append('%s:%s' % (f, fn))
    for e in errors:
        problems.append("%s in %s: %s" % (e['kind'], e['config'], e['message']))

    # ---- counterexamples: replay on the real build
    kf = [k for k in load_known_findings() if k.get('property') == pid]
    violations, known_hits, mismatches = [], {}, []
    seen = {}
    os.makedirs(os.path.join(VERIF, 'replays', pid), exist_ok=True)
    # per (obligation, failed parts): replay the first two counterexamples and, while fewer than two
    # have reproduced, up to six more spread evenly over the rest (different sizes / schedules / forms)
    groups = {}
    for c in cex:
        groups.setdefault((c['obligation'], tuple(c.get('failed_parts') or [])), []).append(c)
    chosen = []
    for key, grp in groups.items():
        # interleave the configurations the counterexamples come from (a replay may be able to reproduce the
        # failure for one family of inputs -- e.g. scripted labellings -- and not for another)
        by_cfg = {}
        for c_ in grp:
            by_cfg.setdefault(c_.get('config'), []).append(c_)
        order = []
        queues = [list(v) for v in by_cfg.values()]
        while any(queues):
            for q in queues:
                if q:
                    order.append(q.pop(0))
        grp = order
        idx = list(range(min(2, len(grp))))
        if len(grp) > 2:
            idx += list(range(2, min(len(grp), 2 + 3 * len(by_cfg))))[:10]
            step = max(1, (len(grp) - 2) // 4)
            idx += [i for i in range(2, len(grp), step) if i not in idx][:4]
        chosen += [(key, grp[i], j >= 2) for j, i in enumerate(idx)]
    confirmed_per_key = {}
    for (key, c, extra) in chosen:
        if extra and confirmed_per_key.get(key, 0) >= 2:
            continue
        c = dict(c)
        c['property'] = pid
        c['mode'] = 'replay'
        path = os.path.join(VERIF, 'replays', pid, _sha(c) + '.json')
        with open(path, 'w') as fh:
            json.dump(c, fh, indent=1, default=str)
        r = replay_file(path)
        if not same_failure(c, r):
            r = dict(r, reproduced=False, note='the real build raised, but not the failure the engine saw '
                                               '(exception classes differ, or a documented refusal)')
        c['replay'] = r
        c['replay_path'] = path
        if r.get('reproduced'):
            confirmed_per_key[key] = confirmed_per_key.get(key, 0) + 1
            sig = r.get('signature')
            hit = None
            for k in kf:
                if k.get('status') == 'known' and k.get('signature') == sig and sig is not None:
                    hit = k
                    break
            if hit is not None:
                known_hits.setdefault(hit['id'], (hit, path))
            else:
                violations.append((c, path))
        elif r.get('ok'):
            mismatches.append((c, path))
        else:
            problems.append("replay of %s failed to run: %s" % (path, json.dumps(r)[:600]))

    # ---- path-witness validation
    val = {'checked': 0, 'agree': 0, 'disagree': [], 'skipped': 0}
    if witnesses and hasattr(chk, 'validate') and chk.validate and not a.canary:
        val = validate_witnesses(pid, witnesses)
        if val.get('error'):
            problems.append("path-witness validation did not run: %s" % json.dumps(val['error'])[:600])
        for d in val.get('disagree', [])[:3]:
            problems.append("path witness disagrees with the real build (engine/shim mismatch): %s"
                            % json.dumps(d)[:800])
    if hasattr(chk, 'extra_validation') and not a.canary:
        try:
            ev = chk.extra_validation()
            for pbl in ev.get('problems', []):
                problems.append(pbl)
            val['shim_differential'] = ev.get('summary')
            val['checked'] += ev.get('checked', 0)
            val['agree'] += ev.get('agree', 0)
        except Exception as exc:
            problems.append("extra validation crashed: %r" % (exc,))

    # a counterexample that does not reproduce is an engine problem -- unless the same
    # obligation's failure was confirmed on the real build by another counterexample
    confirmed = {c['obligation'] for (c, _) in violations}
    confirmed |= {json.load(open(pth))['obligation'] for (_, pth) in known_hits.values()}
    unconfirmed_dupes = [(c, pth) for (c, pth) in mismatches if c['obligation'] in confirmed]
    mismatches = [(c, pth) for (c, pth) in mismatches if c['obligation'] not in confirmed]

    wall = time.time() - t0
    # ---- verdict
    rc = 0
    lines = []
    for hid, (k, path) in sorted(known_hits.items()):
        lines.append("KNOWN-FINDING: property=%s %s [%s] replay=%s" % (pid, k['what'], hid, path))
    for (c, path) in violations:
        lines.append("VIOLATION property=%s replay=%s" % (pid, path))
        lines.append("  obligation=%s failed=%s config=%s" % (c['obligation'], c.get('failed_parts'), c['config']))
        lines.append("  observed: %s" % json.dumps(c['replay'].get('observed'))[:700])
    if violations:
        rc = 1
    for (c, path) in mismatches:
        lines.append("ENGINE-MISMATCH property=%s obligation=%s replay=%s : the solver's counterexample does not "
                     "reproduce on the real build; nothing is claimed" % (pid, c['obligation'], path))
        lines.append("  replay says: %s" % json.dumps(c['replay'])[:700])
    if mismatches and rc == 0:
        rc = 3
    if problems and rc == 0:
        rc = 3
    if (inconc or truncated) and rc == 0:
        rc = 2
    for pbl in problems[:12]:
        lines.append("HARNESS-ERROR property=%s %s" % (pid, pbl))
    for i in inconc[:8]:
        lines.append("INCONCLUSIVE property=%s obligation=%s config=%s" % (pid, i['obligation'], i['config']))
    if truncated:
        lines.append("INCONCLUSIVE property=%s exploration truncated" % pid)

    if a.canary:
        # expected outcome: a replay-confirmed violation
        ok = bool(violations) or bool(known_hits)
        print("\n".join(lines))
        print("CANARY property=%s %s (%s)" % (pid, "detected" if ok else "MISSED", chk.canary.get('what', '')))
        return 0 if ok else 3

    # ---- evidence
    samples = []
    by = stats.as_dict()['by_obligation']
    for name in list(by)[:6]:
        samples.append({'obligation': name, 'text': getattr(chk, 'obligation_text', {}).get(name, ''),
                        **by[name]})
    for w in witnesses[:3]:
        samples.append({'path_witness': w})
    for (c, path) in violations[:2]:
        samples.append({'violation': {k: c[k] for k in ('obligation', 'config', 'inputs', 'failed_parts')},
                        'replay': path})
    cov = {
        'states': stats.paths,
        'transitions': stats.decisions + stats.concretizations + stats.discharged + stats.violated,
        'branch_decisions': stats.decisions + stats.concretizations,
        'traces_validated_against_impl': int(val.get('agree', 0)),
        'samples': samples,
        'exhaustive': not truncated and not inconc,
        'paths_explored': stats.paths,
        'obligations': stats.obligations,
        'discharged': stats.discharged,
        'inconclusive': stats.inconclusive,
        'counterexamples': stats.violated,
        'solver_queries': stats.solver_calls,
        'solver_time_s': round(stats.solver_time, 2),
        'solvers': ['z3 %s (python API, incremental; fresh nlsat fallback)' % core.z3.get_version_string()],
        'element_theory': getattr(chk, 'element_theory', 'REAL'),
        'functions_encoded': functions,
        'source': loader.source_fingerprint(),
        'bounds': chk.bounds(a.tier) if hasattr(chk, 'bounds') else {},
        'configurations': per_config,
        'by_obligation': by,
        'stubs': getattr(chk, 'stubs', []),
        'outside_claim': getattr(chk, 'outside_claim', []),
        'witness_validation': {k: v for k, v in val.items() if k != 'disagree'},
        'known_findings_seen': sorted(known_hits),
        'anchors_no_longer_present': anchors_gone,
        'rule': 'one state = one feasible execution path of the real source under the stated bounds; '
                'one transition = one solver verdict that extended or closed a path (branch feasibility decision, value '
                'enumeration, obligation verdict)',
        'exit_code': rc,
    }
    ev = {
        'property_id': pid,
        'tier': a.tier,
        'seed': seed,
        'level': 'model_checking',
        'coverage': cov,
        'assumptions': getattr(chk, 'assumptions', []),
        'wall_s': round(wall, 2),
        'violations': len(violations),
    }
    if not a.no_evidence and not a.only:
        os.makedirs(os.path.join(VERIF, 'evidence'), exist_ok=True)
        with open(os.path.join(VERIF, 'evidence', pid + '.json'), 'w') as fh:
            json.dump(ev, fh, indent=1, default=str)
    print("\n".join(lines))
    print("%s tier=%s paths=%d decisions=%d obligations=%d discharged=%d sat=%d unknown=%d "
          "solver_calls=%d solver_time=%.1fs witnesses_validated=%d/%d functions=%d wall=%.1fs -> exit %d"
          % (pid, a.tier, stats.paths, stats.decisions + stats.concretizations, stats.obligations,
             stats.discharged, stats.violated, stats.inconclusive, stats.solver_calls, stats.solver_time,
             val.get('agree', 0), val.get('checked', 0), len(functions), wall, rc))
    return rc
