"""symx.loader -- import the real fast_ticc source, fresh from /repo/src, onto
the shim: numpy -> symx.symnp, sklearn -> stub, numba -> absent (the repo's
own fallback decorators are used).  Nothing is copied or translated: the
encoding *is* the current working tree.
"""

import builtins
import functools
import hashlib
import importlib
import multiprocessing.pool   # noqa: F401  (real numpy/sklearn import it as a side effect)
import numbers
import os
import sys
import types

from . import core, symnp
from .core import Sym, SymBool, SymInt, SymReal, SymFP, SymBits

REPO = os.environ.get('VERIF_REPO', '/repo')
SRC = os.path.join(REPO, 'src')

_loaded = None
_caches = []
EXECUTED = set()        # (relative file, function name, first line)
_MON_ON = False


# ---- builtins that must stay symbolic ------------------------------------------



def _unalias(c):
    """Inside loaded modules the names int/float are our symbolic-aware
    replacements; map them back when they are used as *types*."""
    if c is core.sym_float:
        return float
    if c is core.sym_int:
        return int
    return c


# type tag of a proxy -> the classes (by name) the real object would be an instance of
_TAG_TYPES = {
    'float': {'float', 'Real', 'Number', 'Complex'},
    'int': {'int', 'Integral', 'Real', 'Number', 'Complex', 'Rational'},
    'bool': {'bool', 'int', 'Integral', 'Real', 'Number'},
    'np.float64': {'float', 'float64', 'floating', 'number', 'generic', 'Real', 'Number', 'Complex'},
    'np.float32': {'float32', 'floating', 'number', 'generic', 'Real', 'Number', 'Complex'},
    'np.float16': {'float16', 'floating', 'number', 'generic', 'Real', 'Number', 'Complex'},
    'np.int64': {'int64', 'integer', 'signedinteger', 'number', 'generic', 'Integral', 'Real', 'Number'},
    'np.int32': {'int32', 'integer', 'signedinteger', 'number', 'generic', 'Integral', 'Real', 'Number'},
    'np.uint16': {'uint16', 'integer', 'unsignedinteger', 'number', 'generic', 'Integral', 'Real', 'Number'},
    'np.uint8': {'uint8', 'integer', 'unsignedinteger', 'number', 'generic', 'Integral', 'Real', 'Number'},
    'np.uint32': {'uint32', 'integer', 'unsignedinteger', 'number', 'generic', 'Integral', 'Real', 'Number'},
    'np.uint64': {'uint64', 'integer', 'unsignedinteger', 'number', 'generic', 'Integral', 'Real', 'Number'},
}


def _type_name(c):
    if isinstance(c, symnp._DType):
        return c.name
    return getattr(c, '__name__', None)


def sym_isinstance(obj, cls):
    if isinstance(cls, tuple):
        flat = []
        for c in cls:
            flat.extend(c if isinstance(c, tuple) else (c,))
        classes = tuple(_unalias(c) for c in flat)
    else:
        classes = (_unalias(cls),)
    if isinstance(obj, Sym):
        if isinstance(obj, SymBool):
            tag = 'bool'
        elif isinstance(obj, SymBits):
            tag = 'np.float64'
        else:
            tag = getattr(obj, 'tag', 'float')
        names = _TAG_TYPES.get(tag, set())
        for c in classes:
            if c is object:
                return True
            if _type_name(c) in names:
                return True
        return False
    # concrete python objects: numpy marker classes / dtypes never match a python scalar
    real = tuple(c for c in classes if isinstance(c, type) and not issubclass(c, symnp.generic))
    if isinstance(obj, bool):
        real_ok = isinstance(obj, real) if real else False
        return real_ok
    return isinstance(obj, real) if real else False


def _quiet_print(*a, **k):
    return None


INJECT = {
    'int': core.sym_int,
    'float': core.sym_float,
    'isinstance': sym_isinstance,
    'round': core.sym_round,
    'print': _quiet_print,
}


# ---- sklearn stub -------------------------------------------------------------

class GaussianMixture:
    """Contract stub: predict returns *any* labelling in [0, K)^rows."""
    hook = None     # harness may install: hook(n_components, data) -> list of labels

    def __init__(self, n_components=1, covariance_type='full', **kw):
        self.n_components = n_components

    def fit(self, data, y=None):
        return self

    def predict(self, data):
        rows = len(data)
        if GaussianMixture.hook is not None:
            labels = GaussianMixture.hook(self.n_components, data)
        else:
            c = core.ctx()
            labels = [c.int(c.fresh_name('gmm_label'), 0, self.n_components - 1) for _ in range(rows)]
        return symnp.ndarray._new(list(labels), (rows,), symnp.int64)

    def fit_predict(self, data, y=None):
        return self.predict(data)


def _install_sklearn():
    sk = types.ModuleType('sklearn')
    mix = types.ModuleType('sklearn.mixture')
    mix.GaussianMixture = GaussianMixture
    sk.mixture = mix
    sys.modules['sklearn'] = sk
    sys.modules['sklearn.mixture'] = mix


# ---- function coverage ("functions encoded") ------------------------------------

def _start_monitoring():
    global _MON_ON
    if _MON_ON:
        return
    mon = getattr(sys, 'monitoring', None)
    prefix = SRC + os.sep
    if mon is not None:
        tool = mon.COVERAGE_ID
        try:
            mon.use_tool_id(tool, 'symx')
        except ValueError:
            pass

        def on_start(code, offset):
            fn = code.co_filename
            if fn.startswith(prefix):
                EXECUTED.add((fn[len(prefix):], code.co_qualname, code.co_firstlineno))
            return mon.DISABLE
        mon.register_callback(tool, mon.events.PY_START, on_start)
        mon.set_events(tool, mon.events.PY_START)
    else:  # python 3.11 fall-back
        def prof(frame, event, arg):
            if event == 'call':
                code = frame.f_code
                fn = code.co_filename
                if fn.startswith(prefix):
                    EXECUTED.add((fn[len(prefix):], getattr(code, 'co_qualname', code.co_name),
                                  code.co_firstlineno))
        sys.setprofile(prof)
    _MON_ON = True


def restart_monitoring():
    """Re-arm PY_START events (they self-disable per code object) so that a
    forked worker records the functions *it* executes."""
    mon = getattr(sys, 'monitoring', None)
    if mon is not None and _MON_ON:
        mon.restart_events()


def executed_functions():
    files = {}
    out = []
    for (rel, qual, line) in sorted(EXECUTED):
        if qual == '<module>':
            continue
        if rel not in files:
            try:
                with open(os.path.join(SRC, rel), 'rb') as fh:
                    files[rel] = hashlib.sha256(fh.read()).hexdigest()[:16]
            except OSError:
                files[rel] = '?'
        out.append({'file': 'src/' + rel, 'function': qual, 'line': line, 'sha256_16': files[rel]})
    return out


# ---- loading -------------------------------------------------------------------

class Repo(types.SimpleNamespace):
    pass


def load(mutations=None):
    """Import fast_ticc onto the shim.  ``mutations``: optional list of
    (relative file under src/, old text, new text) applied in memory (canary
    mutations; /repo is never written)."""
    global _loaded
    if _loaded is not None and not mutations:
        return _loaded
    symnp.install()
    _install_sklearn()
    sys.modules['numba'] = None
    for k in [k for k in sys.modules if k == 'fast_ticc' or k.startswith('fast_ticc.')]:
        del sys.modules[k]
    if SRC in sys.path:
        sys.path.remove(SRC)
    sys.path.insert(0, SRC)
    sys.dont_write_bytecode = True
    _start_monitoring()

    finder = None
    if mutations:
        finder = _MutatingFinder(mutations)
        sys.meta_path.insert(0, finder)
    try:
        names = ['fast_ticc', 'fast_ticc.front_end', 'fast_ticc.main_loop', 'fast_ticc.data_preparation',
                 'fast_ticc.cluster_label_assignment', 'fast_ticc.cluster_maintenance',
                 'fast_ticc.cluster_metrics', 'fast_ticc.graphical_lasso', 'fast_ticc.likelihood',
                 'fast_ticc.matrix_compression', 'fast_ticc.numba_guard', 'fast_ticc.ticc_types',
                 'fast_ticc.admm', 'fast_ticc.admm.front_end', 'fast_ticc.admm.solver',
                 'fast_ticc.admm.unique_values', 'fast_ticc.containers',
                 'fast_ticc.containers.arguments', 'fast_ticc.containers.model_state',
                 'fast_ticc.containers.results']
        mods = {}
        for n in names:
            mods[n] = importlib.import_module(n)
    finally:
        if finder is not None:
            sys.meta_path.remove(finder)
            if finder.unapplied:
                raise core.HarnessError("mutation did not apply: %r" % (finder.unapplied,))
    # any further fast_ticc module a future change adds
    for k, m in list(sys.modules.items()):
        if (k == 'fast_ticc' or k.startswith('fast_ticc.')) and m is not None:
            mods[k] = m
    del _caches[:]
    for m in mods.values():
        f = getattr(m, '__file__', '') or ''
        if not f.startswith(SRC):
            raise core.HarnessError("fast_ticc module %s loaded from %s, not from %s" % (m.__name__, f, SRC))
        for k, v in INJECT.items():
            if k not in m.__dict__:
                setattr(m, k, v)
        for v in list(m.__dict__.values()):
            if hasattr(v, 'cache_clear') and hasattr(v, '__wrapped__'):
                _caches.append(v)
    _snapshot_module_globals(mods)
    r = Repo()
    r.modules = mods
    r.pkg = mods['fast_ticc']
    r.front_end = mods['fast_ticc.front_end']
    r.main_loop = mods['fast_ticc.main_loop']
    r.data_preparation = mods['fast_ticc.data_preparation']
    r.cla = mods['fast_ticc.cluster_label_assignment']
    r.cm = mods['fast_ticc.cluster_maintenance']
    r.metrics = mods['fast_ticc.cluster_metrics']
    r.gl = mods['fast_ticc.graphical_lasso']
    r.likelihood = mods['fast_ticc.likelihood']
    r.mc = mods['fast_ticc.matrix_compression']
    r.numba_guard = mods['fast_ticc.numba_guard']
    r.admm = mods['fast_ticc.admm']
    r.admm_front_end = mods['fast_ticc.admm.front_end']
    r.solver = mods['fast_ticc.admm.solver']
    r.uv = mods['fast_ticc.admm.unique_values']
    r.arguments = mods['fast_ticc.containers.arguments']
    r.model_state = mods['fast_ticc.containers.model_state']
    r.results = mods['fast_ticc.containers.results']
    r.np = symnp
    if r.numba_guard.NUMBA_AVAILABLE:
        raise core.HarnessError("numba_guard did not take its 'Numba not importable' branch")
    if not mutations:
        _loaded = r
    return r


_GLOBALS0 = []      # (module dict, name, pristine deep copy) of module-level lists/dicts/sets
_CLASSATTR0 = []    # (class, name, pristine deep copy) of mutable class attributes (shared by all instances)
_SCALARS0 = []      # (module dict, name, value) of module-level immutable globals


def _snapshot_module_globals(mods):
    import copy
    del _GLOBALS0[:]
    del _CLASSATTR0[:]
    del _SCALARS0[:]
    for m in mods.values():
        for k, v in list(m.__dict__.items()):
            if k.startswith('__'):
                continue
            if isinstance(v, (list, dict, set)):
                try:
                    _GLOBALS0.append((m.__dict__, k, copy.deepcopy(v)))
                except Exception:
                    pass
            elif v is None or isinstance(v, (bool, int, float, str, tuple, frozenset)):
                # rebindable scalars (latches, counters, "not yet known" sentinels): a path must start
                # from the value the import left, not from what another path stored there
                _SCALARS0.append((m.__dict__, k, v))
            elif isinstance(v, type) and getattr(v, '__module__', None) == m.__name__:
                for ak, av in list(vars(v).items()):
                    if not ak.startswith('__') and isinstance(av, (list, dict, set)):
                        try:
                            _CLASSATTR0.append((v, ak, copy.deepcopy(av)))
                        except Exception:
                            pass


def clear_caches():
    """Every path starts from the state of a fresh import: functools caches cleared and
    module-level mutable globals restored (a path must not see what another one left behind)."""
    import copy
    for c in _caches:
        c.cache_clear()
    for (d, k, v0) in _GLOBALS0:
        cur = d.get(k)
        if isinstance(cur, list) and isinstance(v0, list):
            cur[:] = copy.deepcopy(v0)
        elif isinstance(cur, dict) and isinstance(v0, dict):
            cur.clear()
            cur.update(copy.deepcopy(v0))
        elif isinstance(cur, set) and isinstance(v0, set):
            cur.clear()
            cur.update(v0)
        else:
            d[k] = copy.deepcopy(v0)
    for (d, k, v0) in _SCALARS0:
        if d.get(k) is not v0:
            d[k] = v0
    for (cls, k, v0) in _CLASSATTR0:
        cur = vars(cls).get(k)
        if isinstance(cur, list) and isinstance(v0, list):
            cur[:] = copy.deepcopy(v0)
        elif isinstance(cur, dict) and isinstance(v0, dict):
            cur.clear()
            cur.update(copy.deepcopy(v0))
        elif isinstance(cur, set) and isinstance(v0, set):
            cur.clear()
            cur.update(v0)
        else:
            setattr(cls, k, copy.deepcopy(v0))


class _MutatingFinder:
    """meta-path hook applying textual canary mutations at import."""

    def __init__(self, mutations):
        self.m = {}
        for (rel, old, new) in mutations:
            self.m.setdefault(os.path.join(SRC, rel), []).append((old, new))
        self.unapplied = [os.path.relpath(k, SRC) for k in self.m]

    def find_spec(self, name, path, target=None):
        import importlib.machinery
        import importlib.util
        spec = importlib.machinery.PathFinder.find_spec(name, path)
        if spec is None or not spec.origin or spec.origin not in self.m:
            return None
        edits = self.m[spec.origin]
        outer = self

        class L(importlib.machinery.SourceFileLoader):
            def get_data(self, p):
                data = super().get_data(p)
                if p == spec.origin:
                    txt = data.decode('utf-8')
                    for (old, new) in edits:
                        if txt.count(old) != 1:
                            raise core.HarnessError("canary anchor text occurs %d times in %s: %r"
                                                    % (txt.count(old), p, old))
                        txt = txt.replace(old, new)
                    rel = os.path.relpath(p, SRC)
                    if rel in outer.unapplied:
                        outer.unapplied.remove(rel)
                    return txt.encode('utf-8')
                return data

            def get_code(self, fullname):
                src = self.get_data(spec.origin)
                return compile(src, spec.origin, 'exec', dont_inherit=True)
        spec.loader = L(name, spec.origin)
        return spec


def source_fingerprint():
    """sha256 over the fast_ticc sources the encoding was regenerated from."""
    h = hashlib.sha256()
    n = 0
    for root, dirs, files in sorted(os.walk(os.path.join(SRC, 'fast_ticc'))):
        dirs.sort()
        for f in sorted(files):
            if f.endswith('.py'):
                with open(os.path.join(root, f), 'rb') as fh:
                    h.update(f.encode())
                    h.update(fh.read())
                n += 1
    return {'files': n, 'sha256': h.hexdigest()}
