"""symx.symnp -- the pure-Python NumPy shim the real fast_ticc source runs on.

Only the entry points fast_ticc (and plausible edits of it) use are provided.
Elements are python scalars or symx proxies; shapes are concrete per path.
Basic slicing / transpose / reshape / diagonal return *views* onto the same
buffer (as NumPy does), fancy and mask indexing copy.  Every buffer carries an
owner tag and a writeable flag so that writes to caller-owned data are seen.

This module is installed as ``sys.modules['numpy']`` in the checking process;
real NumPy is not importable there.
"""

import builtins
import itertools
import math
import sys
import types

from . import core
from .core import (Sym, SymBool, SymInt, SymReal, SymFP, SymBits, Unsupported,
                   ite, mk_bool, sym_sqrt, sym_log)

__version__ = "symx-shim"

pi = math.pi
inf = math.inf
nan = math.nan
newaxis = None


class _DType:
    def __init__(self, name, kind):
        self.name = name
        self.kind = kind    # 'f', 'i', 'u', 'b', 'O'

    def __call__(self, v=0):
        # np.float64(x) / np.uint16(x) scalar constructors
        if self.kind == 'f':
            if isinstance(v, Sym):
                return core.sym_float(v)
            return builtins.float(v)
        if self.kind in 'iu':
            if isinstance(v, Sym):
                return core.sym_int(v)
            return builtins.int(v)
        if self.kind == 'b':
            return builtins.bool(v)
        return v

    def __repr__(self):
        return "dtype('%s')" % self.name

    def __eq__(self, o):
        if isinstance(o, _DType):
            return self.name == o.name
        if o is builtins.float:
            return self.name == 'float64'
        if o is builtins.int:
            return self.name == 'int64'
        if o is builtins.bool:
            return self.name == 'bool'
        if isinstance(o, str):
            return self.name == o
        return False

    def __hash__(self):
        return hash(self.name)


float64 = _DType('float64', 'f')
float32 = _DType('float32', 'f')
double = float64
float_ = float64
int64 = _DType('int64', 'i')
int32 = _DType('int32', 'i')
intp = int64
uint16 = _DType('uint16', 'u')
uint8 = _DType('uint8', 'u')
uint32 = _DType('uint32', 'u')
uint64 = _DType('uint64', 'u')
int16 = _DType('int16', 'i')
bool_ = _DType('bool', 'b')
object_ = _DType('object', 'O')


def _as_dtype(dt, default=float64):
    if dt is None:
        return default
    if isinstance(dt, _DType):
        return dt
    if dt is builtins.float:
        return float64
    if dt is builtins.int:
        return int64
    if dt is builtins.bool:
        return bool_
    if dt is object:
        return object_
    if isinstance(dt, str):
        for d in (float64, float32, int64, int32, uint16, bool_, object_):
            if d.name == dt:
                return d
    raise Unsupported("dtype %r" % (dt,))


class dtype:
    """np.dtype(...) -> the shim's dtype object (also usable in annotations)."""

    def __new__(cls, spec=None, *a, **k):
        return _as_dtype(spec)


class Buffer:
    __slots__ = ('data', 'writeable', 'owner', 'writes')

    def __init__(self, data, owner='lib', writeable=True):
        self.data = data
        self.owner = owner
        self.writeable = writeable
        self.writes = 0


WRITE_LOG = []   # (owner, position) of writes to non-'lib' buffers, per path


def _reset_write_log():
    del WRITE_LOG[:]


def _prod(shape):
    n = 1
    for s in shape:
        n *= s
    return n


def _c_steps(shape):
    out, acc = [], 1
    for d in reversed(shape):
        out.insert(0, acc)
        acc *= d
    return out


def _strides_of(a):
    """Element strides of an array over its buffer, derived from its position list; None when the
    positions are not a strided pattern (cannot happen for arrays NumPy itself would hand out)."""
    shape, ix = a.shape, a._ix
    if not ix:
        return [0] * len(shape)
    steps = _c_steps(shape)
    base = ix[0]
    strides = [(ix[steps[j]] - base) if shape[j] > 1 else 0 for j in range(len(shape))]
    k = 0
    for combo in itertools.product(*[range(d) for d in shape]):
        p = base
        for c_, st in zip(combo, strides):
            p += c_ * st
        if ix[k] != p:
            return None
        k += 1
    return strides


def _is_c_contig(a):
    ix = a._ix
    if len(ix) <= 1:
        return True
    b0 = ix[0]
    for k in range(1, len(ix)):
        if ix[k] != b0 + k:
            return False
    return True


def _is_f_contig(a):
    if a.size <= 1 or a.ndim <= 1:
        return _is_c_contig(a)
    st = _strides_of(a)
    if st is None:
        return False
    acc = 1
    for d, s_ in zip(a.shape, st):
        if d > 1 and s_ != acc:
            return False
        acc *= d
    return True


def _nocopy_reshape(olddims, oldstrides, newdims):
    """NumPy's _attempt_nocopy_reshape (C order) on element strides: new strides, or None when the
    reshape needs a copy."""
    old = [(d, s_) for d, s_ in zip(olddims, oldstrides) if d != 1]
    od = [d for d, _ in old]
    os_ = [s_ for _, s_ in old]
    oldnd, newnd = len(od), len(newdims)
    news = [0] * newnd
    oi, oj, ni, nj = 0, 1, 0, 1
    while ni < newnd and oi < oldnd:
        np_, op = newdims[ni], od[oi]
        while np_ != op:
            if np_ < op:
                np_ *= newdims[nj]
                nj += 1
            else:
                op *= od[oj]
                oj += 1
        for ok in range(oi, oj - 1):
            if os_[ok] != od[ok + 1] * os_[ok + 1]:
                return None
        news[nj - 1] = os_[oj - 1]
        for nk in range(nj - 1, ni, -1):
            news[nk - 1] = news[nk] * newdims[nk]
        ni, oi = nj, oj
        nj += 1
        oj += 1
    last = news[ni - 1] if ni >= 1 else 1
    for nk in range(ni, newnd):
        news[nk] = last
    return news


def _laid_out(values, shape, dtype, axis_order, owner='lib'):
    """A fresh array holding ``values`` (logical C order) whose MEMORY order runs fastest along the
    last axis of ``axis_order`` (axis_order == range(ndim): C layout; reversed: Fortran layout)."""
    shape = tuple(shape)
    n = len(shape)
    if n < 2 or _prod(shape) <= 1 or list(axis_order) == list(range(n)):
        return ndarray._new(values, shape, dtype, owner)
    mem = {}
    acc = 1
    for ax in reversed(list(axis_order)):
        mem[ax] = acc
        acc *= shape[ax]
    values = list(values)
    data = [None] * len(values)
    ix = []
    k = 0
    for combo in itertools.product(*[range(d) for d in shape]):
        p = 0
        for ax, c_ in enumerate(combo):
            p += c_ * mem[ax]
        data[p] = values[k]
        ix.append(p)
        k += 1
    return ndarray(Buffer(data, owner), ix, shape, dtype)


def _keep_order(a):
    """Axis order NumPy's order='K' preserves: axes by decreasing stride."""
    st = _strides_of(a)
    n = a.ndim
    if st is None or n < 2:
        return list(range(n))
    return sorted(range(n), key=lambda j: (-abs(st[j]), j))


def _order_axes(a, order):
    n = a.ndim
    order = (order or 'C').upper()
    if order == 'F' or (order == 'A' and _is_f_contig(a) and not _is_c_contig(a)):
        return list(reversed(range(n)))
    if order == 'K':
        return _keep_order(a)
    return list(range(n))


class _Flags:
    def __init__(self, a):
        self._a = a

    @property
    def writeable(self):
        return self._a._b.writeable and not self._a._ro

    @writeable.setter
    def writeable(self, v):
        if self._a._ro and v:
            self._a._ro = False
        else:
            self._a._b.writeable = builtins.bool(v)

    owndata = True
    aligned = True

    @property
    def c_contiguous(self):
        return _is_c_contig(self._a)

    @property
    def f_contiguous(self):
        return _is_f_contig(self._a)

    contiguous = c_contiguous
    fortran = f_contiguous

    def __getitem__(self, k):
        return getattr(self, {'C': 'c_contiguous', 'F': 'f_contiguous', 'W': 'writeable', 'O': 'owndata',
                              'A': 'aligned'}.get(k, str(k).lower()))

    def __setitem__(self, k, v):
        if str(k).upper() in ('W', 'WRITEABLE'):
            self.writeable = v
        else:
            raise ValueError("cannot set flag %r" % (k,))


def _is_scalar(v):
    return isinstance(v, (builtins.int, builtins.float, builtins.bool, core.Fraction, Sym)) or v is None


_UBITS = {'uint8': 8, 'uint16': 16, 'uint32': 32}


def _coerce(v, dt):
    """Value as stored into an array of dtype dt."""
    k = dt.kind
    if k == 'f':
        if isinstance(v, SymReal) and v.tag in core.NARROW and dt.name == 'float64':
            return SymReal(v.e, 'np.float64')           # widening a float32 value is exact
        if isinstance(v, (SymReal, SymFP, SymBits)):
            return v
        if isinstance(v, (SymInt, SymBool)):
            return core.sym_float(SymInt(core.as_int(v))) if isinstance(v, SymBool) else core.sym_float(v)
        if isinstance(v, builtins.bool):
            return 1.0 if v else 0.0
        if isinstance(v, builtins.int):
            return builtins.float(v) if abs(v) < 2 ** 53 else v
        if v is None:
            raise TypeError("float() argument must be a string or a real number, not 'NoneType'")
        return v
    if k in 'iu':
        if isinstance(v, (SymReal, SymFP)):
            v = core.sym_int(v)
        elif isinstance(v, builtins.float):
            v = builtins.int(v)
        elif isinstance(v, builtins.bool):
            v = builtins.int(v)
        bits = _UBITS.get(dt.name)
        if bits is not None and v is not None:
            # fixed-width unsigned storage wraps (what the Numba-compiled kernels do silently)
            if isinstance(v, SymInt):
                if v._conc is not None:
                    return v._conc % (1 << bits)
                return core.mk_int(core.as_int(v) % (1 << bits), v.tag)
            if isinstance(v, builtins.int):
                return v % (1 << bits)
        return v
    if k == 'b':
        if isinstance(v, (builtins.int, builtins.float)) and not isinstance(v, builtins.bool):
            return v != 0
        return v
    return v


class ndarray:
    __slots__ = ('_b', '_ix', 'shape', 'dtype', '_ro')
    __array_priority__ = 100

    def __init__(self, buf, ix, shape, dtype, ro=False):
        self._b = buf
        self._ix = ix
        self.shape = tuple(shape)
        self.dtype = dtype
        self._ro = ro           # a read-only VIEW of a writable buffer (e.g. ndarray.diagonal())

    # ---- construction helpers
    @staticmethod
    def _new(values, shape, dtype, owner='lib'):
        values = list(values)
        assert len(values) == _prod(shape), (len(values), shape)
        return ndarray(Buffer(values, owner), list(range(len(values))), shape, dtype)

    # ---- basic attributes
    @property
    def ndim(self):
        return len(self.shape)

    @property
    def size(self):
        return _prod(self.shape)

    @property
    def T(self):
        return transpose(self)

    @property
    def flags(self):
        return _Flags(self)

    def setflags(self, write=None):
        if write is not None:
            self._b.writeable = builtins.bool(write)

    def __len__(self):
        if not self.shape:
            raise TypeError("len() of unsized object")
        return self.shape[0]

    def _flat(self):
        d = self._b.data
        return [d[i] for i in self._ix]

    def _symnp_tolist(self):
        return self.tolist()

    def tolist(self):
        vals = self._flat()
        if not self.shape:
            return vals[0]

        def build(off, shape):
            if len(shape) == 1:
                return vals[off:off + shape[0]]
            step = _prod(shape[1:])
            return [build(off + i * step, shape[1:]) for i in range(shape[0])]
        return build(0, self.shape)

    def item(self, *a):
        if a:
            return self[a if len(a) > 1 else a[0]]
        if self.size != 1:
            raise ValueError("can only convert an array of size 1 to a Python scalar")
        return self._flat()[0]

    def copy(self, order='C'):
        return _laid_out(self._flat(), self.shape, self.dtype, _order_axes(self, order))

    def __copy__(self):
        return self.copy()

    def __deepcopy__(self, memo):
        return self.copy()

    def astype(self, dt, order='K', casting='unsafe', subok=True, copy=True):
        dt = _as_dtype(dt)
        if not copy and dt == self.dtype:
            return self
        return _laid_out([_coerce(v, dt) for v in self._flat()], self.shape, dt, _order_axes(self, order))

    def fill(self, v):
        self[...] = v

    def flatten(self, order='C'):
        return ndarray._new(self._flat(), (self.size,), self.dtype)

    def ravel(self, order='C'):
        # NumPy: a view only when the array is contiguous in the requested order, otherwise a copy
        order = (order or 'C').upper()
        if order in ('F',) or (order in ('A', 'K') and _is_f_contig(self) and not _is_c_contig(self)):
            t = transpose(self)
            if _is_c_contig(t):
                return ndarray(self._b, list(t._ix), (self.size,), self.dtype, self._ro)
            return ndarray._new(t._flat(), (self.size,), self.dtype)
        if _is_c_contig(self):
            return ndarray(self._b, list(self._ix), (self.size,), self.dtype, self._ro)
        return ndarray._new(self._flat(), (self.size,), self.dtype)

    def reshape(self, *shape, order='C'):
        if len(shape) == 1 and isinstance(shape[0], (tuple, list)):
            shape = tuple(shape[0])
        shape = [builtins.int(s) for s in shape]
        if shape.count(-1) > 1:
            raise ValueError("can only specify one unknown dimension")
        if -1 in shape:
            known = _prod([s for s in shape if s != -1])
            if known == 0 or self.size % known:
                raise ValueError("cannot reshape array of size %d into shape %s" % (self.size, tuple(shape)))
            shape[shape.index(-1)] = self.size // known
        if _prod(shape) != self.size:
            raise ValueError("cannot reshape array of size %d into shape %s" % (self.size, tuple(shape)))
        if self.size <= 1 or _is_c_contig(self):
            return ndarray(self._b, list(self._ix), tuple(shape), self.dtype, self._ro)
        # not C-contiguous: a view when the strides allow it (NumPy's rule), otherwise a copy
        st = _strides_of(self)
        news = _nocopy_reshape(list(self.shape), st, list(shape)) if st is not None else None
        if news is None:
            return ndarray._new(self._flat(), tuple(shape), self.dtype)
        base = self._ix[0]
        ix = []
        for combo in itertools.product(*[range(d) for d in shape]):
            p = base
            for c_, s_ in zip(combo, news):
                p += c_ * s_
            ix.append(p)
        return ndarray(self._b, ix, tuple(shape), self.dtype, self._ro)

    def squeeze(self, axis=None):
        return ndarray(self._b, list(self._ix), tuple(s for s in self.shape if s != 1), self.dtype, self._ro)

    def transpose(self, *axes):
        return transpose(self, axes if axes else None)

    def diagonal(self, offset=0):
        if self.ndim != 2:
            raise ValueError("diag requires an array of at least two dimensions")
        r, c = self.shape
        pos = []
        i, j = (0, offset) if offset >= 0 else (-offset, 0)
        while i < r and j < c:
            pos.append(self._ix[i * c + j])
            i += 1
            j += 1
        return ndarray(self._b, pos, (len(pos),), self.dtype, True)      # NumPy: a read-only view

    def conj(self):
        return self

    def sum(self, axis=None):
        return sum(self, axis=axis)

    def mean(self, axis=None):
        return mean(self, axis=axis)

    def min(self, axis=None):
        return amin(self, axis)

    def max(self, axis=None):
        return amax(self, axis)

    def argmin(self, axis=None):
        return argmin(self, axis)

    def argmax(self, axis=None):
        return argmax(self, axis)

    def dot(self, o):
        return dot(self, o)

    def trace(self):
        return trace(self)

    def any(self):
        r = False
        for v in self._flat():
            r = _or(r, v)
        return r

    def all(self):
        r = True
        for v in self._flat():
            r = _and(r, v)
        return r

    def __iter__(self):
        if not self.shape:
            raise TypeError("iteration over a 0-d array")
        for i in range(self.shape[0]):
            yield self[i]

    def __repr__(self):
        return "symnp.array(%r, shape=%r)" % (self.tolist(), self.shape)

    def __bool__(self):
        if self.size != 1:
            raise ValueError("The truth value of an array with more than one element is ambiguous. "
                             "Use a.any() or a.all()")
        return builtins.bool(self._flat()[0])

    def __float__(self):
        if self.size != 1:
            raise TypeError("only length-1 arrays can be converted to Python scalars")
        return builtins.float(self._flat()[0])

    def __index__(self):
        if self.size != 1 or self.dtype.kind not in 'iu':
            raise TypeError("only integer scalar arrays can be converted to a scalar index")
        return self._flat()[0].__index__()

    __hash__ = None

    # ---- indexing
    def _resolve(self, key):
        """-> (positions into self._ix (flat list), result shape, is_view)."""
        shape = self.shape
        nd = len(shape)
        if isinstance(key, ndarray) and key.dtype.kind == 'b':
            raise Unsupported("internal: mask handled by caller")
        if not isinstance(key, tuple):
            key = (key,)
        # a tuple that is itself a (rows, cols) pair of lists is already per-axis
        key = list(key)
        if builtins.sum(1 for k in key if k is Ellipsis) > 1:
            raise IndexError("an index can only have a single ellipsis")
        n_real = builtins.sum(1 for k in key if k is not None and k is not Ellipsis)
        if n_real > nd:
            raise IndexError("too many indices for array: array is %d-dimensional, but %d were indexed"
                             % (nd, n_real))
        if Ellipsis in key:
            i = key.index(Ellipsis)
            key[i:i + 1] = [slice(None)] * (nd - n_real)
        else:
            key = key + [slice(None)] * (nd - n_real)
        # per-axis selectors
        sels = []        # ('int', i) | ('slice', [idx...]) | ('adv', [idx...]) | ('new',)
        ax = 0
        is_view = True
        for k in key:
            if k is None:
                sels.append(('new', None))
                continue
            dim = shape[ax]
            if isinstance(k, slice):
                sels.append(('slice', list(range(*_slice_indices(k, dim)))))
            elif isinstance(k, (list, tuple, ndarray)):
                if isinstance(k, ndarray):
                    if k.dtype.kind == 'b':
                        if k.ndim != 1 or k.shape[0] != dim:
                            raise Unsupported("boolean index on one axis with mismatching shape")
                        idx = []
                        for j, bv in enumerate(k._flat()):
                            if builtins.bool(bv):
                                idx.append(j)
                        sels.append(('adv', idx))
                        is_view = False
                        ax += 1
                        continue
                    if k.ndim == 0:
                        sels.append(('int', _norm_index(k._flat()[0], dim, ax)))
                        ax += 1
                        continue
                    if k.ndim != 1:
                        raise Unsupported("multi-dimensional index arrays")
                    k = k._flat()
                k = list(k)
                if k and builtins.all(isinstance(b, builtins.bool) for b in k):
                    if len(k) != dim:
                        raise IndexError("boolean index did not match indexed array")
                    k = [j for j, b in enumerate(k) if b]
                sels.append(('adv', [_norm_index(j, dim, ax) for j in k]))
                is_view = False
            else:
                sels.append(('int', _norm_index(k, dim, ax)))
            ax += 1
        strides = []
        acc = 1
        for s in reversed(shape):
            strides.insert(0, acc)
            acc *= s
        adv = [i for i, s in enumerate(sels) if s[0] == 'adv']
        if len(adv) > 1:
            lens = {len(sels[i][1]) for i in adv}
            lens.discard(1)
            if len(lens) > 1:
                raise IndexError("shape mismatch: indexing arrays could not be broadcast together")
            L = lens.pop() if lens else 1
            adjacent = adv == list(range(adv[0], adv[0] + len(adv)))
        elif len(adv) == 1:
            L = len(sels[adv[0]][1])
            adjacent = True
        # build result by iterating the result index space
        # dims of result: for non-adv axes in order ('slice' keeps, 'new' adds 1, 'int' drops);
        # the adv block contributes one dim of length L, at the position of the first adv
        # index if adjacent, else first.
        out_dims = []     # list of (kind, payload)
        placed = False
        ax = 0
        axes_of = []
        for i, s in enumerate(sels):
            if s[0] == 'new':
                out_dims.append(('new', None))
                continue
            if s[0] == 'slice':
                out_dims.append(('slice', (ax, s[1])))
            elif s[0] == 'adv':
                if not placed:
                    out_dims.append(('adv', None))
                    placed = True
            ax += 1
        if adv and not adjacent:
            out_dims = [d for d in out_dims if d[0] == 'adv'] + [d for d in out_dims if d[0] != 'adv']
        fixed = 0
        ax = 0
        adv_axes = []
        for s in sels:
            if s[0] == 'new':
                continue
            if s[0] == 'int':
                fixed += s[1] * strides[ax]
            elif s[0] == 'adv':
                adv_axes.append((ax, s[1]))
            ax += 1
        res_shape = []
        for d in out_dims:
            if d[0] == 'new':
                res_shape.append(1)
            elif d[0] == 'slice':
                res_shape.append(len(d[1][1]))
            else:
                res_shape.append(L)
        positions = []
        ranges = [range(n) for n in res_shape]
        for combo in itertools.product(*ranges):
            p = fixed
            for d, j in zip(out_dims, combo):
                if d[0] == 'slice':
                    p += d[1][1][j] * strides[d[1][0]]
                elif d[0] == 'adv':
                    for (a, idx) in adv_axes:
                        p += (idx[j] if len(idx) > 1 or L == 1 else idx[0]) * strides[a]
            positions.append(p)
        return positions, tuple(res_shape), is_view

    def __getitem__(self, key):
        if isinstance(key, ndarray) and key.dtype.kind == 'b' and key.shape == self.shape:
            vals = self._flat()
            out = []
            for v, b in zip(vals, key._flat()):
                if builtins.bool(b):      # symbolic mask: forks per element
                    out.append(v)
            return ndarray._new(out, (len(out),), self.dtype)
        if isinstance(key, tuple) and key and len(key) <= self.ndim and \
                builtins.any(isinstance(k, ndarray) and k.ndim > 1 for k in key) and \
                builtins.all((isinstance(k, ndarray) and k.dtype.kind in 'iu') or
                             (isinstance(k, (builtins.int, SymInt)) and not isinstance(k, builtins.bool)) or
                             (isinstance(k, (list, tuple)) and builtins.all(isinstance(j, (builtins.int, SymInt)) for j in k))
                             for k in key):
            # pure advanced indexing with index arrays that broadcast against each other:
            # result shape = broadcast(index shapes) + remaining axes, always a copy
            idx = [k if isinstance(k, ndarray) else array(k, dtype=int64) for k in key]
            bshape = ()
            for k in idx:
                bshape = _bshape(bshape, k.shape)
            cols = [_broadcast_to(k, bshape) for k in idx]
            rest = tuple(self.shape[len(idx):])
            inner = _prod(rest)
            steps = _c_steps(self.shape)
            flat = self._flat()
            vals = []
            for t in range(_prod(bshape)):
                p0 = 0
                for ax, col in enumerate(cols):
                    p0 += _norm_index(col[t], self.shape[ax], ax) * steps[ax]
                vals.extend(flat[p0:p0 + inner])
            return ndarray._new(vals, tuple(bshape) + rest, self.dtype)
        if isinstance(key, ndarray) and key.dtype.kind in 'iu' and key.ndim > 1 and self.ndim >= 1:
            # gather along the first axis with an N-d integer index array: result shape is
            # key.shape + self.shape[1:], always a copy
            inner = _prod(self.shape[1:])
            flat = self._flat()
            vals = []
            for j in key._flat():
                r = _norm_index(j, self.shape[0], 0)
                vals.extend(flat[r * inner:(r + 1) * inner])
            return ndarray._new(vals, tuple(key.shape) + tuple(self.shape[1:]), self.dtype)
        positions, shape, is_view = self._resolve(key)
        if not shape and is_view and not _has_newaxis(key):
            return self._b.data[self._ix[positions[0]]]
        ix = [self._ix[p] for p in positions]
        if is_view:
            return ndarray(self._b, ix, shape, self.dtype, self._ro)
        d = self._b.data
        return ndarray._new([d[i] for i in ix], shape, self.dtype)

    def _write(self, pos, v):
        b = self._b
        if not b.writeable or self._ro:
            raise ValueError("assignment destination is read-only")
        if b.owner != 'lib':
            WRITE_LOG.append((b.owner, pos))
        b.writes += 1
        b.data[pos] = v

    def __setitem__(self, key, value):
        dt = self.dtype
        if isinstance(key, ndarray) and key.dtype.kind == 'b' and key.shape == self.shape:
            mask = key._flat()
            if isinstance(value, ndarray) and value.size != 1:
                # needs concrete mask
                sel = [i for i, b in enumerate(mask) if builtins.bool(b)]
                vals = value._flat()
                if len(vals) != len(sel):
                    raise ValueError("NumPy boolean array indexing assignment cannot assign %d input "
                                     "values to the %d output values where the mask is true"
                                     % (len(vals), len(sel)))
                for i, v in zip(sel, vals):
                    self._write(self._ix[i], _coerce(v, dt))
                return
            if isinstance(value, ndarray):
                value = value._flat()[0]
            value = _coerce(value, dt)
            d = self._b.data
            for i, b in enumerate(mask):
                if isinstance(b, builtins.bool):
                    if b:
                        self._write(self._ix[i], value)
                else:
                    # merged write: If(mask, value, old)
                    self._write(self._ix[i], ite(b, value, d[self._ix[i]]))
            return
        positions, shape, _ = self._resolve(key)
        n = len(positions)
        if isinstance(value, (list, tuple)):
            value = array(value)
        if isinstance(value, ndarray):
            vals = _broadcast_to(value, shape)
        else:
            vals = [value] * n
        for p, v in zip(positions, vals):
            self._write(self._ix[p], _coerce(v, dt))

    # ---- arithmetic
    def _ew(self, o, fn, rdtype=None):
        return _elementwise(self, o, fn, rdtype)

    def __add__(self, o):
        return _elementwise(self, o, lambda a, b: a + b)

    def __radd__(self, o):
        return _elementwise(o, self, lambda a, b: a + b)

    def __sub__(self, o):
        return _elementwise(self, o, lambda a, b: a - b)

    def __rsub__(self, o):
        return _elementwise(o, self, lambda a, b: a - b)

    def __mul__(self, o):
        return _elementwise(self, o, lambda a, b: a * b)

    def __rmul__(self, o):
        return _elementwise(o, self, lambda a, b: a * b)

    def __truediv__(self, o):
        return _elementwise(self, o, _div, float64)

    def __rtruediv__(self, o):
        return _elementwise(o, self, _div, float64)

    def __floordiv__(self, o):
        return _elementwise(self, o, lambda a, b: a // b)

    def __mod__(self, o):
        return _elementwise(self, o, lambda a, b: a % b)

    def __pow__(self, o):
        return _elementwise(self, o, lambda a, b: a ** b)

    def __neg__(self):
        return ndarray._new([-v for v in self._flat()], self.shape, self.dtype)

    def __pos__(self):
        return self.copy()

    def __abs__(self):
        return ndarray._new([builtins.abs(v) for v in self._flat()], self.shape, self.dtype)

    def __matmul__(self, o):
        return matmul(self, o)

    def __rmatmul__(self, o):
        return matmul(o, self)

    def _inplace(self, o, fn):
        res = _elementwise(self, o, fn)
        if res.shape != self.shape:
            raise ValueError("non-broadcastable output operand")
        for p, v in zip(self._ix, res._flat()):
            self._write(p, _coerce(v, self.dtype))
        return self

    def __iadd__(self, o):
        return self._inplace(o, lambda a, b: a + b)

    def __isub__(self, o):
        return self._inplace(o, lambda a, b: a - b)

    def __imul__(self, o):
        return self._inplace(o, lambda a, b: a * b)

    def __itruediv__(self, o):
        return self._inplace(o, _div)

    def __lt__(self, o):
        return _elementwise(self, o, lambda a, b: a < b, bool_)

    def __le__(self, o):
        return _elementwise(self, o, lambda a, b: a <= b, bool_)

    def __gt__(self, o):
        return _elementwise(self, o, lambda a, b: a > b, bool_)

    def __ge__(self, o):
        return _elementwise(self, o, lambda a, b: a >= b, bool_)

    def __eq__(self, o):
        if o is None:
            return False
        return _elementwise(self, o, lambda a, b: a == b, bool_)

    def __ne__(self, o):
        if o is None:
            return True
        return _elementwise(self, o, lambda a, b: a != b, bool_)

    def __and__(self, o):
        return _elementwise(self, o, _and, bool_)

    def __rand__(self, o):
        return _elementwise(o, self, _and, bool_)

    def __or__(self, o):
        return _elementwise(self, o, _or, bool_)

    def __ror__(self, o):
        return _elementwise(o, self, _or, bool_)

    def __invert__(self):
        return ndarray._new([_not(v) for v in self._flat()], self.shape, bool_)


def _has_newaxis(key):
    if key is None:
        return True
    if isinstance(key, tuple):
        return builtins.any(k is None for k in key)
    return False


def _div(a, b):
    if not isinstance(a, Sym) and not isinstance(b, Sym):
        if b == 0:
            if a == 0 or a != a:
                return math.nan
            return math.inf if (a > 0) == (math.copysign(1.0, b) > 0) else -math.inf
    return a / b


def _and(a, b):
    if isinstance(a, builtins.bool) and isinstance(b, builtins.bool):
        return a and b
    if isinstance(a, builtins.bool):
        return b if a else False
    if isinstance(b, builtins.bool):
        return a if b else False
    return a & b


def _or(a, b):
    if isinstance(a, builtins.bool) and isinstance(b, builtins.bool):
        return a or b
    if isinstance(a, builtins.bool):
        return True if a else b
    if isinstance(b, builtins.bool):
        return True if b else a
    return a | b


def _not(a):
    if isinstance(a, builtins.bool):
        return not a
    return ~a


def _slice_indices(s, dim):
    def cv(x):
        if x is None:
            return None
        return x.__index__()
    return slice(cv(s.start), cv(s.stop), cv(s.step)).indices(dim)


def _norm_index(i, dim, axis=0):
    if isinstance(i, ndarray):
        i = i.item()
    if isinstance(i, (builtins.float, SymReal, SymFP)) or i is None:
        raise IndexError("only integers, slices (`:`), ellipsis (`...`), numpy.newaxis (`None`) and "
                         "integer or boolean arrays are valid indices")
    j = i.__index__()
    if j < -dim or j >= dim:
        raise IndexError("index %d is out of bounds for axis %d with size %d" % (j, axis, dim))
    return j + dim if j < 0 else j


def _result_dtype(a, b):
    da = a.dtype if isinstance(a, ndarray) else None
    db = b.dtype if isinstance(b, ndarray) else None
    if da is None:
        da = _scalar_dtype(a)
    if db is None:
        db = _scalar_dtype(b)
    order = {'b': 0, 'u': 1, 'i': 2, 'f': 3, 'O': 4}
    if order[da.kind] >= order[db.kind]:
        return da if da.kind != 'b' or db.kind == 'b' else db
    return db


def _scalar_dtype(v):
    if isinstance(v, (builtins.bool, SymBool)):
        return bool_
    if isinstance(v, (builtins.int, SymInt)):
        return int64
    if isinstance(v, (builtins.float, SymReal, SymFP, SymBits, core.Fraction)):
        return float64
    return object_


def _bshape(sa, sb):
    n = builtins.max(len(sa), len(sb))
    sa = (1,) * (n - len(sa)) + tuple(sa)
    sb = (1,) * (n - len(sb)) + tuple(sb)
    out = []
    for x, y in zip(sa, sb):
        if x == y or y == 1:
            out.append(x)
        elif x == 1:
            out.append(y)
        else:
            raise ValueError("operands could not be broadcast together with shapes %s %s" % (sa, sb))
    return tuple(out)


def _broadcast_to(a, shape):
    """flat value list of array a broadcast to shape."""
    vals = a._flat()
    if a.shape == tuple(shape):
        return vals
    _bs = _bshape(a.shape, shape)
    if _bs != tuple(shape):
        raise ValueError("could not broadcast input array from shape %s into shape %s" % (a.shape, tuple(shape)))
    n = len(shape)
    ashape = (1,) * (n - a.ndim) + a.shape
    astr = []
    acc = 1
    for s in reversed(ashape):
        astr.insert(0, 0 if s == 1 else acc)
        acc *= s
    out = []
    for combo in itertools.product(*[range(s) for s in shape]):
        p = 0
        for j, st in zip(combo, astr):
            p += j * st
        out.append(vals[p])
    return out


def _f_only(a):
    return a.size > 1 and not _is_c_contig(a) and _is_f_contig(a)


def _elementwise(a, b, fn, rdtype=None):
    if isinstance(a, (list, tuple)):
        a = array(a)
    if isinstance(b, (list, tuple)):
        b = array(b)
    if b is None or a is None:
        raise TypeError("unsupported operand type(s): 'NoneType'")
    dt = rdtype or _result_dtype(a, b)
    # an array operand's dtype beats a NumPy scalar's: a float64 array op np.float32 scalar is float64
    if isinstance(a, ndarray) and isinstance(b, SymReal) and b.tag in core.NARROW and a.dtype.name == 'float64':
        b = SymReal(b.e, 'np.float64')
    if isinstance(b, ndarray) and isinstance(a, SymReal) and a.tag in core.NARROW and b.dtype.name == 'float64':
        a = SymReal(a.e, 'np.float64')
    if isinstance(a, ndarray) and isinstance(b, ndarray):
        if a.shape == b.shape:
            vals = [fn(x, y) for x, y in zip(a._flat(), b._flat())]
            if a.ndim > 1 and a.size > 1 and not (_is_c_contig(a) or _is_c_contig(b)):
                ka, kb = _keep_order(a), _keep_order(b)
                if ka == kb:
                    return _laid_out(vals, a.shape, dt, ka)                       # ufunc output order 'K'
            return ndarray._new(vals, a.shape, dt)
        shape = _bshape(a.shape, b.shape)
        return ndarray._new([fn(x, y) for x, y in zip(_broadcast_to(a, shape), _broadcast_to(b, shape))],
                            shape, dt)
    if isinstance(a, ndarray):
        if not _is_scalar(b):
            return NotImplemented
        vals = [fn(x, b) for x in a._flat()]
        if a.ndim > 1 and a.size > 1 and not _is_c_contig(a):
            return _laid_out(vals, a.shape, dt, _keep_order(a))
        return ndarray._new(vals, a.shape, dt)
    if not _is_scalar(a):
        return NotImplemented
    vals = [fn(a, y) for y in b._flat()]
    if b.ndim > 1 and b.size > 1 and not _is_c_contig(b):
        return _laid_out(vals, b.shape, dt, _keep_order(b))
    return ndarray._new(vals, b.shape, dt)


# ---- constructors -------------------------------------------------------------

def _shape_of(shape):
    if isinstance(shape, (builtins.int, SymInt)):
        return (shape.__index__(),)
    return tuple(s.__index__() for s in shape)


def zeros(shape, dtype=None, order='C'):
    dt = _as_dtype(dtype)
    shape = _shape_of(shape)
    if builtins.any(s < 0 for s in shape):
        raise ValueError("negative dimensions are not allowed")
    z = 0.0 if dt.kind == 'f' else (False if dt.kind == 'b' else 0)
    if str(order).upper() == 'F':
        return _laid_out([z] * _prod(shape), shape, dt, list(reversed(range(len(shape)))))
    return ndarray._new([z] * _prod(shape), shape, dt)


def ones(shape, dtype=None, order='C'):
    dt = _as_dtype(dtype)
    shape = _shape_of(shape)
    if builtins.any(s < 0 for s in shape):
        raise ValueError("negative dimensions are not allowed")
    o = 1.0 if dt.kind == 'f' else (True if dt.kind == 'b' else 1)
    if str(order).upper() == 'F':
        return _laid_out([o] * _prod(shape), shape, dt, list(reversed(range(len(shape)))))
    return ndarray._new([o] * _prod(shape), shape, dt)


def empty(shape, dtype=None, order='C'):
    return zeros(shape, dtype, order)


def full(shape, fill_value, dtype=None):
    shape = _shape_of(shape)
    dt = _as_dtype(dtype, _scalar_dtype(fill_value))
    return ndarray._new([_coerce(fill_value, dt)] * _prod(shape), shape, dt)


def zeros_like(a, dtype=None, order='K'):
    a = asarray(a)
    z = zeros(a.shape, dtype or a.dtype)
    return _laid_out(z._flat(), z.shape, z.dtype, _order_axes(a, order))


def ones_like(a, dtype=None):
    a = asarray(a)
    return ones(a.shape, dtype or a.dtype)


def full_like(a, v, dtype=None):
    a = asarray(a)
    return full(a.shape, v, dtype or a.dtype)


def empty_like(a, dtype=None):
    return zeros_like(a, dtype)


def eye(n, dtype=None):
    n = n.__index__()
    a = zeros((n, n), dtype)
    for i in range(n):
        a[i, i] = 1
    return a


def identity(n, dtype=None):
    return eye(n, dtype)


def arange(*a, dtype=None):
    vals = list(range(*[x.__index__() for x in a]))
    return ndarray._new(vals, (len(vals),), _as_dtype(dtype, int64))


def _nested(obj):
    """-> (flat values, shape) of a nested list / array structure."""
    if isinstance(obj, ndarray):
        return obj._flat(), obj.shape
    if isinstance(obj, (list, tuple, range)):
        if len(obj) == 0:
            return [], (0,)
        parts = [_nested(o) for o in obj]
        shp = parts[0][1]
        for p in parts:
            if p[1] != shp:
                raise ValueError("setting an array element with a sequence. The requested array has an "
                                 "inhomogeneous shape")
        vals = []
        for p in parts:
            vals.extend(p[0])
        return vals, (len(obj),) + shp
    return [obj], ()


def array(obj, dtype=None, copy=True, order='K', ndmin=0):
    if isinstance(obj, ndarray) and dtype is None:
        r = obj.copy(order=order)
    elif isinstance(obj, ndarray):
        r = obj.astype(dtype, order=order)
    else:
        vals, shape = _nested(obj)
        if dtype is None:
            if builtins.any(v is None for v in vals):
                dt = object_
            elif vals and builtins.all(isinstance(v, (builtins.bool, SymBool)) for v in vals):
                dt = bool_
            elif vals and builtins.all(isinstance(v, (builtins.int, SymInt)) and not isinstance(v, builtins.bool)
                              for v in vals):
                dt = int64
            elif isinstance(obj, ndarray):
                dt = obj.dtype
            else:
                dt = float64
        else:
            dt = _as_dtype(dtype)
        r = ndarray._new([_coerce(v, dt) for v in vals], shape, dt)
    while r.ndim < ndmin:
        r = r.reshape((1,) + r.shape)
    return r


def asarray(obj, dtype=None, order=None):
    if isinstance(obj, ndarray) and (dtype is None or _as_dtype(dtype) == obj.dtype):
        o = (order or 'K').upper()
        if o == 'C' and not _is_c_contig(obj):
            return obj.copy('C')
        if o == 'F' and not _is_f_contig(obj):
            return obj.copy('F')
        return obj
    return array(obj, dtype, order=order or 'K')


asanyarray = asarray


def ascontiguousarray(a, dtype=None):
    return asarray(a, dtype, order='C')


def asfortranarray(a, dtype=None):
    return asarray(a, dtype, order='F')


def copy(a, order='K'):
    a = asarray(a) if isinstance(a, ndarray) else array(a)
    return a.copy(order=order)


# ---- shape manipulation -------------------------------------------------------

def transpose(a, axes=None):
    a = asarray(a)
    if a.ndim < 2:
        return ndarray(a._b, list(a._ix), a.shape, a.dtype, a._ro)
    if axes is None:
        axes = tuple(reversed(range(a.ndim)))
    axes = tuple(axes)
    shape = tuple(a.shape[i] for i in axes)
    strides = []
    acc = 1
    for s in reversed(a.shape):
        strides.insert(0, acc)
        acc *= s
    ix = []
    for combo in itertools.product(*[range(s) for s in shape]):
        p = 0
        for j, ax in zip(combo, axes):
            p += j * strides[ax]
        ix.append(a._ix[p])
    return ndarray(a._b, ix, shape, a.dtype, a._ro)


def reshape(a, shape):
    return asarray(a).reshape(shape)


def ravel(a):
    return asarray(a).ravel()


def vstack(tup):
    arrs = [atleast_2d(asarray(a)) for a in tup]
    if not arrs:
        raise ValueError("need at least one array to concatenate")
    return concatenate(arrs, axis=0)


def hstack(tup):
    arrs = [asarray(a) for a in tup]
    if arrs and arrs[0].ndim == 1:
        return concatenate(arrs, axis=0)
    return concatenate(arrs, axis=1)


def atleast_2d(a):
    a = asarray(a)
    if a.ndim == 0:
        return a.reshape((1, 1))
    if a.ndim == 1:
        return a.reshape((1, a.shape[0]))
    return a


def atleast_1d(a):
    a = asarray(a)
    if a.ndim == 0:
        return a.reshape((1,))
    return a


def concatenate(arrs, axis=0):
    arrs = [asarray(a) for a in arrs]
    if not arrs:
        raise ValueError("need at least one array to concatenate")
    nd = arrs[0].ndim
    for a in arrs:
        if a.ndim != nd:
            raise ValueError("all the input array dimensions except for the concatenation axis must match exactly")
    if axis != 0:
        moved = [transpose(a, (axis,) + tuple(i for i in range(nd) if i != axis)) for a in arrs]
        r = concatenate(moved, 0)
        inv = list(range(1, axis + 1)) + [0] + list(range(axis + 1, nd))
        return transpose(r, inv).copy()
    rest = arrs[0].shape[1:]
    vals = []
    n0 = 0
    dt = arrs[0].dtype
    for a in arrs:
        if a.shape[1:] != rest:
            raise ValueError("all the input array dimensions except for the concatenation axis must "
                             "match exactly, but along dimension 1, the array at index 0 has size %s and "
                             "another has size %s" % (rest, a.shape[1:]))
        vals.extend(a._flat())
        n0 += a.shape[0]
        dt = _result_dtype(ndarray._new([], (0,), dt), a)
    return ndarray._new(vals, (n0,) + rest, dt)


def stack(arrs, axis=0):
    if axis != 0:
        raise Unsupported("stack axis != 0")
    return array(list(arrs))


def diag(v, k=0):
    v = asarray(v)
    if k != 0:
        raise Unsupported("diag with k != 0")
    if v.ndim == 1:
        n = v.shape[0]
        out = zeros((n, n), v.dtype)
        vals = v._flat()
        for i in range(n):
            out._b.data[i * n + i] = vals[i]
        return out
    if v.ndim == 2:
        return v.diagonal().copy()
    raise ValueError("Input must be 1- or 2-d.")


def diagonal(a, offset=0):
    return asarray(a).diagonal(offset)


def triu_indices(n, k=0, m=None):
    n = n.__index__()
    m = n if m is None else m.__index__()
    rows, cols = [], []
    for i in range(n):
        for j in range(builtins.max(i + k, 0), m):
            rows.append(i)
            cols.append(j)
    return (ndarray._new(rows, (len(rows),), int64), ndarray._new(cols, (len(cols),), int64))


def diag_indices(n, ndim=2):
    n = n.__index__()
    idx = ndarray._new(list(range(n)), (n,), int64)
    return tuple(idx.copy() for _ in range(ndim))


def diag_indices_from(a):
    return diag_indices(asarray(a).shape[0], asarray(a).ndim)


def moveaxis(a, source, destination):
    a = asarray(a)
    n = a.ndim
    src = [(x.__index__() + n) % n for x in (source if isinstance(source, (list, tuple)) else [source])]
    dst = [(x.__index__() + n) % n for x in (destination if isinstance(destination, (list, tuple)) else [destination])]
    if len(src) != len(dst):
        raise ValueError("`source` and `destination` arguments must have the same number of elements")
    order = [i for i in range(n) if i not in src]
    for d, s_ in sorted(zip(dst, src)):
        order.insert(d, s_)
    return transpose(a, order)


def _sliding_window_view(x, window_shape, axis=None, *, subok=False, writeable=False):
    """np.lib.stride_tricks.sliding_window_view for one axis: a (read-only) VIEW whose last axis
    runs over the window."""
    x = asarray(x)
    if isinstance(window_shape, (tuple, list)):
        if len(window_shape) != 1:
            raise Unsupported("sliding_window_view over several axes")
        window_shape = window_shape[0]
    w = window_shape.__index__()
    if axis is None:
        if x.ndim != 1:
            raise Unsupported("sliding_window_view without an axis on an N-d array")
        axis = 0
    if isinstance(axis, (tuple, list)):
        axis = axis[0]
    axis = (axis.__index__() + x.ndim) % x.ndim
    if w < 0:
        raise ValueError("`window_shape` cannot contain negative values")
    if w > x.shape[axis]:
        raise ValueError("window shape cannot be larger than input array shape")
    out_shape = list(x.shape)
    out_shape[axis] = x.shape[axis] - w + 1
    out_shape.append(w)
    steps = _c_steps(x.shape)
    ix = []
    for combo in itertools.product(*[range(d) for d in out_shape]):
        p0 = 0
        for ax in range(x.ndim):
            j = combo[ax] + (combo[-1] if ax == axis else 0)
            p0 += j * steps[ax]
        ix.append(x._ix[p0])
    return ndarray(x._b, ix, tuple(out_shape), x.dtype, not writeable or x._ro)


class _StrideTricks:
    sliding_window_view = staticmethod(_sliding_window_view)


class _Lib:
    stride_tricks = _StrideTricks()


lib = _Lib()


def take(a, indices, axis=None, out=None, mode='raise'):
    a = asarray(a)
    if axis is not None:
        raise Unsupported("np.take with an axis")
    flat = a._flat()
    idx = asarray(indices)
    vals = [flat[_norm_index(j, len(flat), 0)] for j in idx._flat()]
    if out is not None:
        if out.shape != idx.shape:
            raise ValueError("output array does not match result of ndarray.take")
        out[...] = ndarray._new(vals, idx.shape, a.dtype)
        return out
    return ndarray._new(vals, idx.shape, a.dtype)


def fill_diagonal(a, val, wrap=False):
    n = builtins.min(a.shape)
    if isinstance(val, (ndarray, list, tuple)):
        vals = asarray(val)._flat()
        if not vals:
            raise ValueError("All input arrays must have the same shape")  # pragma: no cover
        for i in range(n):
            a[i, i] = vals[i % len(vals)]        # NumPy repeats the values as needed
        return
    for i in range(n):
        a[i, i] = val


def tril_indices(n, k=0, m=None):
    n = n.__index__()
    m = n if m is None else m.__index__()
    rows, cols = [], []
    for i in range(n):
        for j in range(0, builtins.min(i + k + 1, m)):
            rows.append(i)
            cols.append(j)
    return (ndarray._new(rows, (len(rows),), int64), ndarray._new(cols, (len(cols),), int64))


def triu(a, k=0):
    a = asarray(a)
    out = a.copy()
    r, c = a.shape
    for i in range(r):
        for j in range(c):
            if j < i + k:
                out._b.data[i * c + j] = _coerce(0, a.dtype)
    return out


def tril(a, k=0):
    a = asarray(a)
    out = a.copy()
    r, c = a.shape
    for i in range(r):
        for j in range(c):
            if j > i + k:
                out._b.data[i * c + j] = _coerce(0, a.dtype)
    return out


# ---- reductions ---------------------------------------------------------------

def _pysum(vals, start=0):
    """Left-to-right sum.  Exact concrete zeros are skipped when a symbolic
    REAL/INT term is present (x + 0 == x exactly there); never in FP64/BITS."""
    vals = list(vals)
    if builtins.any(isinstance(v, (SymReal, SymInt)) for v in vals) and \
            not builtins.any(isinstance(v, (SymFP, SymBits)) for v in vals):
        nz = [v for v in vals if isinstance(v, Sym) or v != 0]
        if nz:
            vals = nz
    r = start
    first = True
    for v in vals:
        if first and not isinstance(r, Sym) and r == 0:
            r = v
        else:
            r = r + v
        first = False
    return r


def _mul0(a, b):
    """a*b with the exact shortcut 0*x = 0 for REAL/INT proxies."""
    if isinstance(a, (SymReal, SymInt)) and not isinstance(b, Sym) and b == 0:
        return 0.0
    if isinstance(b, (SymReal, SymInt)) and not isinstance(a, Sym) and a == 0:
        return 0.0
    return a * b


def _reduce_axis(a, axis, fn):
    a = asarray(a)
    if axis is None:
        return fn(a._flat())
    if isinstance(axis, (tuple, list)):
        axes = sorted({(x.__index__() + a.ndim) % a.ndim for x in axis}, reverse=True)
        if len(axes) == a.ndim:
            return fn(a._flat())
        if len(axes) > 1 and fn not in (_sum_list,):
            raise Unsupported("reduction over several axes other than a sum")
        out = a
        for ax in axes:
            out = _reduce_axis(out, ax, fn)
        return out
    axis = axis.__index__()
    if axis < 0:
        axis += a.ndim
    moved = transpose(a, (axis,) + tuple(i for i in range(a.ndim) if i != axis)) if a.ndim > 1 else a
    n = a.shape[axis]
    rest = moved.shape[1:]
    m = _prod(rest)
    vals = moved._flat()
    out = [fn([vals[i * m + j] for i in range(n)]) for j in range(m)]
    if not rest:
        return out[0]
    return ndarray._new(out, rest, float64 if a.dtype.kind != 'i' else a.dtype)


def _sum_list(vals):
    vals = [core.mk_int(core.as_int(v)) if isinstance(v, (SymBool, builtins.bool)) else v for v in vals]
    if not vals:
        return 0.0
    return _pysum(vals)


def sum(a, axis=None, dtype=None):
    return _reduce_axis(a, axis, _sum_list)


def count_nonzero(a, axis=None):
    a = asarray(a)
    return _sum_list([(v != 0) if not isinstance(v, (builtins.bool, SymBool)) else v for v in a._flat()])


def prod(a, axis=None):
    def f(vals):
        r = 1
        for v in vals:
            r = r * v
        return r
    return _reduce_axis(a, axis, f)


def _mean_list(vals):
    if not vals:
        return math.nan
    return _sum_list(vals) / len(vals)


def mean(a, axis=None, dtype=None):
    return _reduce_axis(a, axis, _mean_list)


average = mean


def _sort_network(vals):
    vals = list(vals)
    n = len(vals)
    for i in range(n):
        for j in range(n - 1 - i):
            a, b = vals[j], vals[j + 1]
            c = a <= b
            if isinstance(c, builtins.bool):
                if not c:
                    vals[j], vals[j + 1] = b, a
            else:
                vals[j], vals[j + 1] = ite(c, a, b), ite(c, b, a)
    return vals


def _median_list(vals):
    if not vals:
        return math.nan
    s = _sort_network(vals)
    n = len(s)
    if n % 2:
        return s[n // 2]
    return (s[n // 2 - 1] + s[n // 2]) / 2


def median(a, axis=None):
    return _reduce_axis(a, axis, _median_list)


def sort(a, axis=-1):
    a = asarray(a)
    if a.ndim != 1:
        raise Unsupported("sort of a multi-dimensional array")
    return ndarray._new(_sort_network(a._flat()), a.shape, a.dtype)


def _min_list(vals):
    r = vals[0]
    for v in vals[1:]:
        c = v < r
        r = ite(c, v, r)
    return r


def _max_list(vals):
    r = vals[0]
    for v in vals[1:]:
        c = v > r
        r = ite(c, v, r)
    return r


def amin(a, axis=None):
    return _reduce_axis(a, axis, _min_list)


def amax(a, axis=None):
    return _reduce_axis(a, axis, _max_list)


min = amin
max = amax


def minimum(a, b):
    return _elementwise(a, b, lambda x, y: ite(x < y, x, y)) if isinstance(a, ndarray) or isinstance(b, ndarray) \
        else ite(a < b, a, b)


def maximum(a, b):
    return _elementwise(a, b, lambda x, y: ite(x > y, x, y)) if isinstance(a, ndarray) or isinstance(b, ndarray) \
        else ite(a > b, a, b)


def _argmin_list(vals):
    if not vals:
        raise ValueError("attempt to get argmin of an empty sequence")
    bi, bv = 0, vals[0]
    for j in range(1, len(vals)):
        c = vals[j] < bv
        if isinstance(c, builtins.bool):
            if c:
                bi, bv = j, vals[j]
        else:
            bi, bv = ite(c, j, bi), ite(c, vals[j], bv)
    if isinstance(bi, SymInt):
        bi.tag = 'np.int64'
    return bi


def _argmax_list(vals):
    if not vals:
        raise ValueError("attempt to get argmax of an empty sequence")
    bi, bv = 0, vals[0]
    for j in range(1, len(vals)):
        c = vals[j] > bv
        if isinstance(c, builtins.bool):
            if c:
                bi, bv = j, vals[j]
        else:
            bi, bv = ite(c, j, bi), ite(c, vals[j], bv)
    return bi


def argmin(a, axis=None):
    return _reduce_axis(a, axis, _argmin_list)


def argmax(a, axis=None):
    return _reduce_axis(a, axis, _argmax_list)


def trace(a):
    a = asarray(a)
    if a.ndim != 2:
        raise ValueError("diag requires an array of at least two dimensions")
    return _sum_list(a.diagonal()._flat())


def any(a):
    return asarray(a).any()


def all(a):
    return asarray(a).all()


def where(c, a=None, b=None):
    if a is None:
        raise Unsupported("one-argument where")
    return _where3(c, a, b)


def _where3(c, a, b):
    c = asarray(c)
    shape = c.shape
    if isinstance(a, ndarray):
        shape = _bshape(shape, a.shape)
    if isinstance(b, ndarray):
        shape = _bshape(shape, b.shape)
    cv = _broadcast_to(c, shape)
    av = _broadcast_to(asarray(a), shape)
    bv = _broadcast_to(asarray(b), shape)
    return ndarray._new([ite(x, y, z) for x, y, z in zip(cv, av, bv)], shape, float64)


def clip(a, lo, hi):
    return maximum(minimum(a, hi), lo)


def isfinite(a):
    if isinstance(a, ndarray):
        return ndarray._new([isfinite(v) for v in a._flat()], a.shape, bool_)
    if isinstance(a, SymFP):
        import z3
        return mk_bool(z3.Not(z3.Or(z3.fpIsNaN(a.e), z3.fpIsInf(a.e))))
    if isinstance(a, Sym):
        return True
    return math.isfinite(a)


def isinf(a):
    if isinstance(a, ndarray):
        return ndarray._new([isinf(v) for v in a._flat()], a.shape, bool_)
    if isinstance(a, SymFP):
        import z3
        return mk_bool(z3.fpIsInf(a.e))
    if isinstance(a, Sym):
        return False                  # a symbolic real / int is finite
    return math.isinf(a)


def isposinf(a):
    if isinstance(a, ndarray):
        return ndarray._new([isposinf(v) for v in a._flat()], a.shape, bool_)
    if isinstance(a, SymFP):
        import z3
        return mk_bool(z3.And(z3.fpIsInf(a.e), z3.fpIsPositive(a.e)))
    if isinstance(a, Sym):
        return False
    return math.isinf(a) and a > 0


def isneginf(a):
    if isinstance(a, ndarray):
        return ndarray._new([isneginf(v) for v in a._flat()], a.shape, bool_)
    if isinstance(a, SymFP):
        import z3
        return mk_bool(z3.And(z3.fpIsInf(a.e), z3.fpIsNegative(a.e)))
    if isinstance(a, Sym):
        return False
    return math.isinf(a) and a < 0


def isnan(a):
    if isinstance(a, ndarray):
        return ndarray._new([isnan(v) for v in a._flat()], a.shape, bool_)
    if isinstance(a, SymFP):
        import z3
        return mk_bool(z3.fpIsNaN(a.e))
    if isinstance(a, Sym):
        return False
    return math.isnan(a)


def require(a, dtype=None, requirements=None):
    """np.require: the SAME array when every requirement is already met, a copy otherwise."""
    reqs = set()
    for r in (requirements or []):
        reqs.add({'C_CONTIGUOUS': 'C', 'CONTIGUOUS': 'C', 'F_CONTIGUOUS': 'F', 'FORTRAN': 'F', 'ALIGNED': 'A',
                  'WRITEABLE': 'W', 'OWNDATA': 'O', 'ENSUREARRAY': 'E'}.get(str(r).upper(), str(r).upper()))
    if not isinstance(a, ndarray):
        return array(a, dtype)
    dt = _as_dtype(dtype, a.dtype)
    need_copy = dt != a.dtype or ('W' in reqs and not a._b.writeable) or ('F' in reqs and not _is_f_contig(a)) or \
        ('C' in reqs and not _is_c_contig(a)) or ('O' in reqs and len(a._ix) != len(a._b.data))
    if need_copy:
        out = _laid_out([_coerce(v, dt) for v in a._flat()], a.shape, dt,
                        list(reversed(range(a.ndim))) if 'F' in reqs else
                        (list(range(a.ndim)) if 'C' in reqs else _keep_order(a)))
        return out
    return a


def unravel_index(indices, shape):
    shape = tuple(s.__index__() for s in shape)
    idx = [i.__index__() for i in (asarray(indices)._flat() if not _is_scalar(indices) else [indices])]
    outs = [[] for _ in shape]
    for i in idx:
        if i < 0 or i >= _prod(shape):
            raise ValueError("index %d is out of bounds for array with size %d" % (i, _prod(shape)))
        rem = i
        for k in range(len(shape) - 1, -1, -1):
            outs[k].append(rem % shape[k])
            rem //= shape[k]
    if _is_scalar(indices):
        return tuple(o[0] for o in outs)
    return tuple(ndarray._new(o, (len(o),), int64) for o in outs)


def ravel_multi_index(multi_index, dims):
    dims = tuple(d.__index__() for d in dims)
    cols = [asarray(m)._flat() for m in multi_index]
    out = []
    for t in zip(*cols):
        acc = 0
        for v, d in zip(t, dims):
            acc = acc * d + v.__index__()
        out.append(acc)
    return ndarray._new(out, (len(out),), int64)


def isclose(a, b, rtol=1e-5, atol=1e-8, equal_nan=False):
    """|a - b| <= atol + rtol * |b| elementwise (NumPy's definition)."""
    def one(x, y):
        lim = atol + rtol * builtins.abs(y) if not (not isinstance(rtol, Sym) and rtol == 0) else atol
        return builtins.abs(x - y) <= lim
    if isinstance(a, ndarray) or isinstance(b, ndarray):
        return _elementwise(asarray(a), b, one, bool_)
    return one(a, b)


def diff(a, n=1, axis=-1, prepend=None, append=None):
    a = asarray(a)
    if a.ndim != 1 or n != 1:
        raise Unsupported("diff of a multi-dimensional array / n != 1")
    vals = a._flat()
    if prepend is not None:
        vals = list(asarray(prepend)._flat() if isinstance(prepend, (list, tuple, ndarray)) else [prepend]) + vals
    if append is not None:
        vals = vals + list(asarray(append)._flat() if isinstance(append, (list, tuple, ndarray)) else [append])
    out = [vals[i + 1] - vals[i] for i in range(len(vals) - 1)]
    return ndarray._new(out, (len(out),), a.dtype if a.dtype.kind != 'b' else int64)


def cumsum(a, axis=None):
    a = asarray(a)
    if a.ndim != 1:
        raise Unsupported("cumsum of a multi-dimensional array")
    out, acc = [], None
    for v in a._flat():
        acc = v if acc is None else acc + v
        out.append(acc)
    return ndarray._new(out, (len(out),), a.dtype)


def cumprod(a, axis=None):
    a = asarray(a)
    out, acc = [], None
    for v in a._flat():
        acc = v if acc is None else acc * v
        out.append(acc)
    return ndarray._new(out, (len(out),), a.dtype)


def append(a, values, axis=None):
    return concatenate([asarray(a).ravel(), atleast_1d(asarray(values)).ravel()])


def flip(a, axis=None):
    a = asarray(a)
    if a.ndim != 1:
        raise Unsupported("flip of a multi-dimensional array")
    return ndarray._new(list(reversed(a._flat())), a.shape, a.dtype)


def tile(a, reps):
    a = asarray(a)
    if a.ndim > 1 or not isinstance(reps, builtins.int):
        raise Unsupported("tile beyond 1-d")
    vals = a._flat() * reps
    return ndarray._new(vals, (len(vals),), a.dtype)


def repeat(a, repeats, axis=None):
    a = asarray(a)
    vals = []
    for v in a._flat():
        vals.extend([v] * repeats.__index__())
    return ndarray._new(vals, (len(vals),), a.dtype)


def nonzero(a):
    a = asarray(a)
    if a.ndim != 1:
        raise Unsupported("nonzero of a multi-dimensional array")
    idx = [i for i, v in enumerate(a._flat()) if builtins.bool(v if isinstance(v, (builtins.bool, SymBool)) else v != 0)]
    return (ndarray._new(idx, (len(idx),), int64),)


def flatnonzero(a):
    return nonzero(asarray(a).ravel())[0]


def argsort(a, axis=-1, kind=None):
    a = asarray(a)
    if a.ndim != 1:
        raise Unsupported("argsort of a multi-dimensional array")
    vals = a._flat()
    idx = sorted(range(len(vals)), key=lambda i: _SortKey(vals[i]))     # comparisons fork on symbolic values
    return ndarray._new(idx, (len(idx),), int64)


class _SortKey:
    __slots__ = ('v',)

    def __init__(self, v):
        self.v = v

    def __lt__(self, o):
        return builtins.bool(self.v < o.v)


def unique(a, return_counts=False):
    a = asarray(a)
    vals = [v.__index__() if isinstance(v, SymInt) else v for v in a._flat()]
    if builtins.any(isinstance(v, Sym) for v in vals):
        raise Unsupported("unique of symbolic reals")
    u = sorted(set(vals))
    out = ndarray._new(u, (len(u),), a.dtype)
    if return_counts:
        return out, ndarray._new([vals.count(x) for x in u], (len(u),), int64)
    return out


def bincount(a, minlength=0):
    vals = [v.__index__() for v in asarray(a)._flat()]
    n = builtins.max([minlength] + [v + 1 for v in vals])
    return ndarray._new([vals.count(i) for i in range(n)], (n,), int64)


def linspace(start, stop, num=50):
    num = num.__index__()
    if num == 1:
        return array([start])
    step = (stop - start) / (num - 1)
    return array([start + i * step for i in range(num)])


def floor(a):
    return _map(a, lambda v: v.__floor__() if isinstance(v, Sym) else math.floor(v))


def ceil(a):
    return _map(a, lambda v: v.__ceil__() if isinstance(v, Sym) else math.ceil(v))


def allclose(a, b, rtol=1e-5, atol=1e-8):
    d = abs(asarray(a) - asarray(b))
    lim = atol + rtol * abs(asarray(b))
    return (d <= lim).all()


def array_equal(a, b):
    a, b = asarray(a), asarray(b)
    if a.shape != b.shape:
        return False
    return (a == b).all()


# ---- elementwise maths -------------------------------------------------------

def _map(a, fn, dt=float64):
    if isinstance(a, ndarray):
        return ndarray._new([fn(v) for v in a._flat()], a.shape, dt)
    if isinstance(a, (list, tuple)):
        return _map(array(a), fn, dt)
    return fn(a)


def _log1(v):
    if isinstance(v, Sym):
        return sym_log(v)
    if v == 0:
        return -math.inf
    if v < 0 or v != v:
        return math.nan
    if v == math.inf:
        return math.inf
    return math.log(v)


def _sqrt1(v):
    if isinstance(v, Sym):
        return sym_sqrt(v)
    if v < 0:
        return math.nan
    return math.sqrt(v)


def log(a):
    return _map(a, _log1)


def sqrt(a):
    return _map(a, _sqrt1)


def square(a):
    return _map(a, lambda v: v * v, a.dtype if isinstance(a, ndarray) else float64)


def abs(a):
    return _map(a, builtins.abs, a.dtype if isinstance(a, ndarray) else float64)


absolute = abs
fabs = abs


def negative(a):
    return _map(a, lambda v: -v)


def sign(a):
    return _map(a, lambda v: ite(v > 0, 1.0, ite(v < 0, -1.0, 0.0)))


def exp(a):
    def f(v):
        if isinstance(v, Sym):
            raise Unsupported("exp of a symbolic value")
        return math.exp(v)
    return _map(a, f)


def power(a, p):
    return _map(a, lambda v: v ** p)


def add(a, b):
    return asarray(a) + b


def subtract(a, b):
    return asarray(a) - b


def multiply(a, b):
    return asarray(a) * b


def divide(a, b):
    return asarray(a) / b


def logical_and(a, b):
    return _elementwise(asarray(a), b, _and, bool_)


def logical_or(a, b):
    return _elementwise(asarray(a), b, _or, bool_)


def logical_not(a):
    return ~asarray(a)


# ---- linear algebra ---------------------------------------------------------

def dot(a, b):
    if not isinstance(a, ndarray) and not isinstance(b, ndarray):
        return a * b
    a, b = asarray(a), asarray(b)
    if a.ndim == 0 or b.ndim == 0:
        return a * b
    return matmul(a, b)


def inner(a, b):
    return matmul(asarray(a), asarray(b))


def outer(a, b):
    a, b = asarray(a).ravel(), asarray(b).ravel()
    return matmul(a.reshape(-1, 1), b.reshape(1, -1))


def matmul(a, b):
    a, b = asarray(a), asarray(b)
    if a.ndim == 0 or b.ndim == 0:
        raise ValueError("matmul: Input operand does not have enough dimensions")
    a1 = a.ndim == 1
    b1 = b.ndim == 1
    A = a.reshape(1, -1) if a1 else a
    B = b.reshape(-1, 1) if b1 else b
    if A.ndim != 2 or B.ndim != 2:
        raise Unsupported("matmul of >2-d arrays")
    n, k = A.shape
    k2, m = B.shape
    if k != k2:
        raise ValueError("matmul: Input operand 1 has a mismatch in its core dimension 0 "
                         "(size %d is different from %d)" % (k2, k))
    av, bv = A._flat(), B._flat()
    out = []
    for i in range(n):
        for j in range(m):
            out.append(_pysum([_mul0(av[i * k + t], bv[t * m + j]) for t in range(k)]) if k else 0.0)
    if a1 and b1:
        return out[0]
    if a1:
        return ndarray._new(out, (m,), float64)
    if b1:
        return ndarray._new(out, (n,), float64)
    return ndarray._new(out, (n, m), float64)


def cov(m, y=None, rowvar=True, bias=False, ddof=None):
    """NumPy's documented definition: rows are variables, columns observations."""
    if y is not None:
        raise Unsupported("cov with y")
    X = array(m, ndmin=2)
    if not rowvar and X.shape[0] != 1:
        X = transpose(X).copy()
    if ddof is None:
        ddof = 0 if _truthy(bias) else 1
    nvar, nobs = X.shape
    avg = mean(X, axis=1)
    avg = asarray(avg).reshape(-1) if isinstance(avg, ndarray) else array([avg])
    fact = nobs - ddof
    Xc = X - avg.reshape(-1, 1)
    c = matmul(Xc, transpose(Xc))
    if not isinstance(fact, Sym) and fact <= 0:
        c = _map(c, lambda v: _div(v, 0.0) if not isinstance(v, Sym) else v / 0)
    else:
        c = c / fact
    return c.squeeze()


def _truthy(b):
    return builtins.bool(b)


class _Linalg(types.ModuleType):
    """np.linalg: LAPACK lives here; every entry is a contract stub that the
    harness installs (symx.stubs).  Without a stub the call is UNSUPPORTED."""

    def __init__(self):
        super().__init__('numpy.linalg')
        self._impl = {}
        self.LinAlgError = type('LinAlgError', (ValueError,), {})

    def _call(self, name, *a, **k):
        f = self._impl.get(name)
        if f is None:
            raise Unsupported("np.linalg.%s has no contract stub installed in this harness" % name)
        return f(*a, **k)

    def eigh(self, a, UPLO='L'):
        return self._call('eigh', a)

    def eig(self, a):
        return self._call('eig', a)

    def eigvalsh(self, a, UPLO='L'):
        return self._call('eigvalsh', a)

    def _batched(self, name, a):
        """LAPACK-backed functions broadcast over leading axes: one contract-stub call per matrix."""
        a = asarray(a)
        lead = a.shape[:-2]
        n, m = a.shape[-2:]
        flat = a._flat()
        return lead, [self._call(name, ndarray._new(flat[k * n * m:(k + 1) * n * m], (n, m), a.dtype))
                      for k in range(_prod(lead))]

    def det(self, a):
        if isinstance(a, ndarray) and a.ndim > 2:
            lead, outs = self._batched('det', a)
            return ndarray._new(outs, lead, float64)
        return self._call('det', a)

    def slogdet(self, a):
        if isinstance(a, ndarray) and a.ndim > 2:
            lead, outs = self._batched('slogdet', a)
            return (ndarray._new([o[0] for o in outs], lead, float64),
                    ndarray._new([o[1] for o in outs], lead, float64))
        return self._call('slogdet', a)

    def inv(self, a):
        if isinstance(a, ndarray) and a.ndim > 2:
            lead, outs = self._batched('inv', a)
            vals = []
            for o in outs:
                vals.extend(asarray(o)._flat())
            return ndarray._new(vals, a.shape, float64)
        return self._call('inv', a)

    def pinv(self, a):
        return self._call('pinv', a)

    def cholesky(self, a):
        return self._call('cholesky', a)

    def norm(self, x, ord=None, axis=None, keepdims=False):
        if ord is not None or axis is not None:
            fn = self._impl.get('norm')
            if fn is not None and getattr(fn, 'takes_ord', False):
                return fn(x, ord=ord, axis=axis)        # a contract stub that knows the other norms
            return self._call('norm_ord', x, ord, axis)
        return self._call('norm', x)

    def solve(self, a, b):
        return self._call('solve', a, b)


linalg = _Linalg()


class _Random(types.ModuleType):
    def __init__(self):
        super().__init__('numpy.random')

    def __getattr__(self, name):
        def f(*a, **k):
            raise Unsupported("np.random.%s" % name)
        return f


random = _Random()


class _Errstate:
    def __init__(self, **k):
        pass

    def __enter__(self):
        return self

    def __exit__(self, *a):
        return False


errstate = _Errstate


def seterr(**k):
    return {}


def isscalar(v):
    return _is_scalar(v) and v is not None


class generic:
    """Marker classes for numpy's scalar type hierarchy (isinstance dispatch
    is answered from a proxy's type tag by symx.loader.sym_isinstance)."""


class number(generic):
    pass


class floating(number):
    pass


class integer(number):
    pass


class signedinteger(integer):
    pass


class unsignedinteger(integer):
    pass


class bool_scalar(generic):
    pass


def install():
    """Make this module *be* numpy for code imported afterwards."""
    me = sys.modules[__name__]
    sys.modules['numpy'] = me
    sys.modules['numpy.linalg'] = linalg
    sys.modules['numpy.random'] = random
    return me
