#!/bin/bash
# Build the overlay interpreter the checks run in: the repository's own
# Python 3.12 (/venv) plus z3-solver (and cvc5) from the offline wheelhouse.
# Idempotent; needs no network.
set -u
cd "$(dirname "$0")"
VENV=/verif/.venv
WH=/opt/veriftools/wheels
export PIP_NO_INDEX=1 PIP_DISABLE_PIP_VERSION_CHECK=1
ok() { "$VENV/bin/python" -c "import z3, jsonschema" >/dev/null 2>&1; }
if [ -x "$VENV/bin/python" ] && ok; then
    echo "setup: $VENV already usable"
else
    rm -rf "$VENV"
    if /venv/bin/python -m venv "$VENV" >/dev/null 2>&1 \
       && "$VENV/bin/python" -m pip install -q --no-index --find-links "$WH" z3-solver jsonschema >/dev/null 2>&1 \
       && ok; then
        "$VENV/bin/python" -m pip install -q --no-index --find-links "$WH" cvc5 >/dev/null 2>&1 || true
        echo "setup: built $VENV (python $("$VENV/bin/python" -V 2>&1), z3 $("$VENV/bin/python" -c 'import z3;print(z3.get_version_string())'))"
    else
        rm -rf "$VENV"
        echo "setup: overlay venv could not be built; checks fall back to python3-vt"
    fi
fi
mkdir -p /verif/evidence /verif/replays
exit 0
