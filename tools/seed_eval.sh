#!/bin/bash
# tools/seed_eval.sh <seed-id> <property> [tier]
# Apply /verif/seeded/<seed-id>/patch.diff to /repo, run the property's check, undo the patch.
set -u
SID="$1"; PID="$2"; TIER="${3:-quick}"
D=/verif/seeded/$SID
cd /repo || exit 9
if ! git diff --quiet; then echo "repo dirty; refusing"; exit 9; fi
git apply "$D/patch.diff" || { echo "patch does not apply"; exit 9; }
trap 'git -C /repo checkout -- . ' EXIT
cd /verif
timeout 3000 ./check "$PID" --tier "$TIER" --no-evidence > "$D/check_$PID.$TIER.log" 2>&1
rc=$?
grep -E "^VIOLATION|^KNOWN-FINDING|^ENGINE|^HARNESS|^INCONCLUSIVE| -> exit" "$D/check_$PID.$TIER.log" | cut -c1-220 | head -8
echo "seed=$SID property=$PID tier=$TIER exit=$rc"
exit 0
