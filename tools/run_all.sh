#!/bin/bash
# tools/run_all.sh <tier> : run every claimed check once, print one line per property with wall time
TIER="${1:-quick}"
cd "$(dirname "$0")/.."
for p in $(python3 -c "import json;print(' '.join(c['property_id'] for c in json.load(open('MANIFEST.json'))['checks']))"); do
  s=$(date +%s)
  out=$(timeout 7200 ./check $p --tier $TIER --no-evidence 2>&1 | tail -1 | cut -c1-170)
  e=$(date +%s)
  echo "$p $((e-s))s :: $out"
done
