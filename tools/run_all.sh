#!/bin/bash
# tools/run_all.sh <tier> : run every claimed check once, print one line per property with wall time and exit code
TIER="${1:-quick}"
cd "$(dirname "$0")/.."
for p in $(python3 -c "import json;print(' '.join(c['property_id'] for c in json.load(open('MANIFEST.json'))['checks']))"); do
  s=$(date +%s)
  out=$(timeout 7200 ./check $p --tier $TIER --no-evidence 2>&1); rc=$?
  e=$(date +%s)
  echo "$p $((e-s))s exit=$rc :: $(echo "$out" | tail -1 | cut -c1-150)"
done
