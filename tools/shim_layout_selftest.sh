#!/bin/bash
# Differential self-test of the shim's memory-layout model (view vs copy, contiguity flags, read-only
# views, order='K' copies, ufunc output layout) against real NumPy on 12000 random operation sequences.
cd "$(dirname "$0")/.."
T=$(mktemp -d)
sed "s#/tmp/layout_%s.json#$T/layout_%s.json#" tools/shim_layout_diff.py > $T/d.py
.venv/bin/python $T/d.py shim && /venv/bin/python $T/d.py numpy && python3 - "$T" <<'PY'
import json,sys
t=sys.argv[1]
a=json.load(open(t+'/layout_shim.json')); b=json.load(open(t+'/layout_numpy.json'))
bad=[(x,y) for x,y in zip(a,b) if x!=y]
print("sequences=%d disagreements=%d" % (len(a), len(bad)))
for x,y in bad[:5]: print(x,'\n  ',y)
sys.exit(1 if bad else 0)
PY
rc=$?; rm -rf $T; exit $rc
