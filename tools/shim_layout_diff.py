import sys, random, json
which=sys.argv[1]
if which=='shim':
    sys.path.insert(0,'/verif'); from symx import symnp as np
else:
    import numpy as np
def factorisations(n):
    out=[(n,)]
    for a in range(1,n+1):
        if n%a==0:
            out.append((a,n//a))
            for b in range(1,n//a+1):
                if (n//a)%b==0: out.append((a,b,n//a//b))
    return out
res=[]
for seed in range(12000):
    rnd=random.Random(seed)
    shape=rnd.choice([(2,3),(3,2),(2,2,3),(4,3),(1,4),(3,1,2),(6,)])
    n=1
    for d in shape: n*=d
    base=np.arange(n).reshape(shape).astype(float) if which!='shim' else np.array([float(i) for i in range(n)]).reshape(shape)
    cur=base; log=[]
    for step in range(rnd.randint(1,4)):
        op=rnd.choice(['T','slice','reshape','ravel','copyK','copyC','copyF','add','flat_reshape','squeeze','diag','gatherN','gatherB','take'])
        try:
            if op=='T': cur=cur.T
            elif op=='slice':
                key=tuple(rnd.choice([slice(None),slice(0,None,2),slice(1,None),0]) for _ in range(cur.ndim)) if cur.ndim else ()
                nxt=cur[key]
                if not hasattr(nxt,'shape') or nxt.ndim==0: continue
                cur=nxt
            elif op=='reshape':
                cur=cur.reshape(rnd.choice(factorisations(cur.size)))
            elif op=='flat_reshape': cur=cur.reshape(-1)
            elif op=='ravel': cur=cur.ravel()
            elif op=='copyK': cur=np.copy(cur)
            elif op=='copyC': cur=cur.copy()
            elif op=='copyF': cur=cur.copy(order='F')
            elif op=='add': cur=cur+1.0
            elif op=='squeeze': cur=cur.squeeze()
            elif op=='gatherN':
                if not cur.flags.c_contiguous: continue     # layout of a fancy-index result over a non-contiguous source: not modelled
                k=rnd.randint(1,3); m=rnd.randint(1,3)
                idx=np.array([[rnd.randrange(cur.shape[0]) for _ in range(m)] for _ in range(k)])
                cur=cur[idx]
            elif op=='gatherB':
                if cur.ndim<2 or not cur.flags.c_contiguous: continue
                k=rnd.randint(1,3); m=rnd.randint(1,3)
                rows=np.array([[rnd.randrange(cur.shape[0])] for _ in range(k)])
                cols=np.array([rnd.randrange(cur.shape[1]) for _ in range(m)])
                cur=cur[rows+0*cols, cols]
            elif op=='take':
                idx=np.array([rnd.randrange(cur.size) for _ in range(rnd.randint(1,4))])
                cur=np.take(cur, idx)
            elif op=='diag':
                if cur.ndim==2: cur=cur.diagonal()
                else: continue
            log.append(op)
        except Exception as e:
            log.append(op+':'+type(e).__name__); break
        if cur.size==0: break
    if cur.size==0 or cur.ndim==0:
        res.append([seed,log,'empty']); continue
    flags=[bool(cur.flags.c_contiguous), bool(cur.flags.f_contiguous)]
    vals=[float(v) for v in (cur.ravel().tolist() if which!='shim' else cur.flatten().tolist())] if True else None
    # does writing into cur change base?
    try:
        idx=(0,)*cur.ndim
        cur[idx]=-5.0
        changed=[float(v) for v in (base.ravel().tolist() if which!='shim' else base.flatten().tolist())].count(-5.0)
    except ValueError as e:
        changed='readonly'
    res.append([seed,log,list(cur.shape),flags,vals,changed])
json.dump(res,open('/tmp/layout_%s.json'%which,'w'))
