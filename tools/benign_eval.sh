#!/bin/bash
# tools/benign_eval.sh <id> : apply a behaviour-preserving refactor to /repo, run every quick check, undo.
# Any non-zero exit is a false alarm of the machinery.
ID="$1"; D=/verif/seeded_benign/$ID
cd /repo || exit 9
git diff --quiet || { echo "repo dirty"; exit 9; }
git apply "$D/patch.diff" || { echo "patch does not apply"; exit 9; }
trap 'git -C /repo checkout -- .' EXIT
cd /verif
: > "$D/checks.log"
for p in $(python3 -c "import json;print(' '.join(c['property_id'] for c in json.load(open('MANIFEST.json'))['checks']))"); do
  out=$(timeout 1500 ./check $p --tier quick --no-evidence 2>&1)
  rc=$?
  echo "$p exit=$rc :: $(echo "$out" | tail -1 | cut -c1-120)" | tee -a "$D/checks.log"
  if [ $rc -ne 0 ]; then echo "$out" | grep -E "^VIOLATION|^ENGINE|^HARNESS|^INCONCL|observed|obligation=" | head -6 | cut -c1-300 | tee -a "$D/checks.log"; fi
done
