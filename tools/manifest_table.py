# executed by mkmanifest.py: claim(pid, level text, level note, design ref) / na(pid, reason)

claim('C01',
      'Every feasible path of the real labelling kernel (and of predict_cluster_labels around it) is explored '
      'for each listed T x K shape with the whole cost table, the switching costs and a rival label sequence '
      'symbolic; on each path z3 shows unsat for "some rival is cheaper", "reported cost differs from the cost of '
      'the returned path", "a label is out of range"; also for integer-dtype tables with a real switching cost, and for '
      'one table labelled twice (it must stay the caller\'s table). Bounded (shapes in evidence.bounds), exact-real arithmetic.',
      'Trusted: the symx engine and NumPy shim (validated on every run by replaying path witnesses on the real '
      'kernel), z3; floats modelled as reals; Numba-compiled kernel only exercised on replayed witnesses.',
      'DESIGN.md section 5, C01')

_TB = ('Trusted: the symx engine and NumPy shim (validated on every run by replaying sampled path witnesses on the real '
       'build under /venv/bin/python), z3; python floats modelled as exact reals unless stated; every stub listed in '
       'evidence.coverage.stubs is part of the claim. ')

claim('C04',
      'The real front ends, stacking/padding/splitting helpers, fit_stacked_data and the real MRF reconstruction run '
      'symbolically for every window size, sensor count, cluster count, iteration limit and (independent) series '
      'length in the bounds, with the numerical phases replaced by recording summaries that return arbitrary labels / '
      'values; on every path z3 discharges: one label per row, margins exactly floor((W-1)/2) / rest, interior labels '
      'are the labelling step\'s labels in order with no leakage across series, K MRFs of NW x NW, K and W echoed.',
      _TB + 'Numerical phases are summarised (their own properties cover them).', 'DESIGN.md section 5, C04')
claim('C05',
      'The real likelihood kernels (point density, all-points table, public table function, per-point wrapper) run on '
      'symbolic points, means, symmetric MRFs and log-determinant symbols; z3 (nlsat) proves the polynomial identity '
      'with an independently written Gaussian log-density, entry by entry, and that the public function scores against '
      'the current MRF/mean/ln-det (stale caches planted). A det() contract stub carries the double-range side '
      'condition for Theta=t*I_n, n up to 200, which is how log(det()) vs slogdet() is told apart.',
      _TB + 'ln is an Ackermannised uninterpreted function; LAPACK accuracy is outside.', 'DESIGN.md section 5, C05')
claim('C06',
      'The real relabel step, kernels, fit_stacked_data tail and _split_combined_result run on arbitrary symbolic '
      'positive-definite MRFs / ln-det symbols / switching costs (data and means fixed distinct patterns so all '
      'obligations are linear); on every path (every labelling the real kernel can produce, including ones leaving a '
      'cluster empty) z3 discharges the accounting relations between all_log_likelihood, overall sum/mean/median, '
      'cluster mean/median and label_assignment_cost, for scalar and per-pair beta, iteration limit 1 and 2, single '
      'and joint front end.',
      _TB + 'Fitting phases summarised; known finding C06-joint-cost-prices-boundary-pairs (same root cause as C07).',
      'DESIGN.md section 5, C06')
claim('C08',
      'One inductive step of the real repopulate_empty_clusters from an arbitrary labelling: labels (or size vectors), '
      'minimum size m, per-cluster spread and the random draw are symbolic; every feasible path is explored and the '
      'conservation / donor / recipient / spread-order / untouched-input obligations are discharged per path. One step '
      'from an arbitrary state covers histories of any length.',
      _TB + 'norm and random.sample are contract stubs (any spread, any distinct draw).', 'DESIGN.md section 5, C08')
claim('C10',
      'The real stacking helpers run on opaque 64-bit payloads (BITS: bit-for-bit copy semantics, so NaN payloads, '
      'infinities and -0 are covered by construction) for every W, N, T and tuple of series lengths in the bounds; '
      'split+pad run on symbolic labels and symbolic stacked lengths. The input\'s memory order (C / Fortran) is symbolic, '
      'arithmetic on a payload is decided in z3 FloatingPoint, and a stacking of any other geometry may precede the one '
      'under test in the same process.', _TB, 'DESIGN.md section 5, C10')
claim('C11',
      'Closed-form compressed index proved equal to the row-major rank by induction (base/step are unsat queries) with '
      'no bound on n other than the float-exactness side condition; compression round trips on symbolic matrices up to '
      'n=150 (thorough); Toeplitz class maps for every (N,W) in the bounds with the class id symbolic: partition, '
      'class size W-b, block-Toeplitz equality, compressed/slice forms agree, cache transparent.',
      _TB, 'DESIGN.md section 5, C11')
claim('C12',
      'The real statistics step runs on symbolic data, symbolic labels and a symbolic estimator flag and is compared '
      '(nlsat) with an independently written sample mean / covariance over exactly the labelled windows; the real '
      'optimiser plumbing runs on a stub pool whose completion order is chosen by the solver, with matrix- and '
      'scalar-valued sparsity weight and a symbolic covariance floor.', _TB, 'DESIGN.md section 5, C12')
claim('C13',
      'One-step and two-step inductive obligations from an arbitrary state satisfying the representation invariant, '
      'for every state operation (assign, repopulate, statistics, optimise, relabel, shallow/deep copy); deep copies '
      'are checked by walking the reachable object graphs and by mutating every leaf of the copy.',
      _TB + 'The solver\'s role is the exhaustive exploration of labellings and branch outcomes; identity checks are '
      'concrete per path.', 'DESIGN.md section 5, C13')
claim('C16',
      'The real BIC function on symbolic positive-definite MRFs, covariances and labels is proved equal (nlsat) to the '
      'definition with independently derived label runs and a symbolic over-threshold count; the det() range side '
      'condition is checked for Theta=t*I_n, n up to 200.', _TB, 'DESIGN.md section 5, C16')
claim('C17',
      'The real Calinski-Harabasz function on symbolic data and labels (cluster means from the real statistics step) '
      'is compared with the definition as a cross-multiplied rational identity (nlsat); where it fails, the deviation '
      'model of the listed known finding (scalar global mean) is proved instead, so that every other part of the '
      'formula stays under check.', _TB + 'Known finding C17-scalar-centre.', 'DESIGN.md section 5, C17')

claim('C02',
      'Conditional clause only, decomposed into per-step exactness obligations of the ADMM iteration, each decided on '
      'the real code: soft-threshold prox (all reals), class-wise lambda sums, the Z-update as exact block-Toeplitz '
      'minimiser (symbolic x,u,rho, scalar and matrix lambda), the U-update, the X-update (matrix handed to eigh, '
      'eigenvalue stationarity for all real d and rho>0, orientation/scale with a symbolic orthogonal 2x2 q), the '
      'stopping rule, and the driver against a reference iteration with a symbolic iteration budget and optional rho '
      'callback. From these, epsilon-optimality at the stopping rule follows by the cited ADMM residual argument.',
      _TB + 'The passage from per-step exactness to epsilon-optimality is textbook reasoning (Boyd et al. 2010 s3.3), '
      'not a solver result; the unconditional convergence clause is outside the claim; eigh is a contract stub.',
      'DESIGN.md section 5, C02')
claim('C03',
      'IEEE binary64 (z3 FloatingPoint) execution of the real x_update_prox eigenvalue map with q=I: every finite '
      'eigenvalue |d|<=2^44 gives a finite, strictly positive precision eigenvalue; binary64 execution of the real floor '
      'filter on arbitrary bit patterns (NaN, inf, -0, subnormals) and arbitrary eps>=0; real-arithmetic positivity '
      'for all d, rho>0; symmetric reinflation; log-determinant range side condition for Theta=t*I_n, n<=200.',
      _TB + 'LAPACK rounding in eigh/q is not modelled (contract stub); FP64 only where stated.', 'DESIGN.md section 5, C03')
claim('C07',
      'The mask helper on symbolic tuples of stacked lengths (up to 6 series); the real joint front end down to the '
      'real labelling kernel with a spy on the switching cost that reaches it; optimality of the joint labelling against '
      'a symbolic rival under within-series pricing; joint stacking vs per-series stacking on opaque payloads; joint of '
      'one series vs the single front end in one path (term-equal results).',
      _TB + 'Known findings C07-mask-dropped / C07-joint-labelling-prices-boundary-pairs (not repairable without '
      'changing the pinned joint-run results).', 'DESIGN.md section 5, C07')
claim('C09',
      'The real fit_stacked_data with every phase replaced by a recording summary and a fresh symbolic labelling per '
      'round: every pattern of equal/different consecutive labellings and every iteration limit in the bound is '
      'explored; round count, phase order and data flow, the stop-iff-fixed-point rule, what is returned and scored, '
      'and pool handling are discharged per path.', _TB, 'DESIGN.md section 5, C09')

claim('C14',
      'Python-level half only: the real main loop and optimiser plumbing run on a stub pool whose completion order is '
      'a solver-chosen permutation, with the optimiser as an uninterpreted function of its arguments and named symbolic '
      'summaries, so that two runs are comparable term for term: every permutation, every num_processors in 1..8, the '
      'multiprocessing variable unset/empty/set, a repeated run, and every order of earlier calls with other (N,W) '
      '(whatever memoisation the code uses; compared with the state of a fresh import) and an earlier fit with an '
      'arbitrary covariance floor give term-equal results; the optimiser stub is keyed by every argument it is given.',
      _TB + 'Bit-identity across real worker processes / BLAS threading / OS scheduling is outside the claim; the '
      'replay oracle exercises real processes with permuting delays on witnesses only.', 'DESIGN.md section 5, C14')
claim('C18',
      'Type forms are type tags on symbolic values and the real isinstance dispatch runs against them: Z-update with '
      'lambda as python float/int/np.float64/np.float32/np.int64 and as scalar vs constant matrix (symbolic x,u,rho), '
      'kernel with scalar beta in each form vs the constant vector, floor filter with eps in each form, and both front '
      'ends handing the caller\'s very objects to the main loop.',
      _TB + 'The same real value is used for all forms (np.float32 rounding of the value itself is outside).',
      'DESIGN.md section 5, C18')
claim('C19',
      'Every shim array carries an owner tag and a writeable flag; caller-owned arguments are created read-only and any '
      'write raises as NumPy would. The kernel, the optimiser entry point (<=2 iterations, rho callback on/off), the '
      'floor filter, the stacking helpers and both front ends (real statistics/reconstruction/relabel) run with '
      'read-only caller data, matrix lambda and vector beta on every explored path, including failing calls; '
      'obligations: no write attempt, term-equal snapshots, list of series untouched.',
      _TB + 'One memory layout (Fortran order outside); larger optimiser shapes run on concrete inputs (write detection '
      'only).', 'DESIGN.md section 5, C19')
claim('C20',
      'Symbolic fault schedule: a fault at a symbolic (round, cluster) optimisation task of the stub pool or at a '
      'symbolic (round, phase), with the multiprocessing variable set/unset and num_processors symbolic; obligations: '
      'the very exception object surfaces, nothing runs after the fault, nothing is returned, the pool is released '
      'before the exception leaves, a following clean call equals a fresh clean call; faults with and without a message '
      '(a callback that raises on the result-handler thread is modelled as a hang); for every size vector left by round 0 '
      'the real repopulation raises the donor error iff refills on offer < clusters to refill; wrong input kind raises the '
      'documented error. Pool-release and hang candidates are confirmed on the real build (live children, time limit).',
      _TB + 'Real child-process liveness and hangs are decided only through replay of candidates.',
      'DESIGN.md section 5, C20')

_PENDING = 'check not built yet in this round (design in DESIGN.md section 5); will be claimed when its harness lands'
na('C15', 'compares Numba-generated machine code (LLVM/NRT/BLAS calls, prange threads) with the interpreted source; '
          'no engine in this sandbox executes that symbolically and a hand IR->SMT translator for allocating, '
          'BLAS-calling code is out of reach (DESIGN.md section 6)')
