# executed by mkmanifest.py: claim(pid, level text, level note, design ref) / na(pid, reason)

claim('C01',
      'Every feasible path of the real labelling kernel (and of predict_cluster_labels around it) is explored '
      'for each listed T x K shape with the whole cost table, the switching costs and a rival label sequence '
      'symbolic; on each path z3 shows unsat for "some rival is cheaper", "reported cost differs from the cost of '
      'the returned path", "a label is out of range". Bounded (shapes in evidence.bounds), exact-real arithmetic.',
      'Trusted: the symx engine and NumPy shim (validated on every run by replaying path witnesses on the real '
      'kernel), z3; floats modelled as reals; Numba-compiled kernel only exercised on replayed witnesses.',
      'DESIGN.md section 5, C01')

_PENDING = 'check not built yet in this round (design in DESIGN.md section 5); will be claimed when its harness lands'
for _p in ['C02', 'C03', 'C04', 'C05', 'C06', 'C07', 'C08', 'C09', 'C10', 'C11', 'C12', 'C13', 'C14', 'C16',
           'C17', 'C18', 'C19', 'C20']:
    na(_p, _PENDING)
na('C15', 'compares Numba-generated machine code (LLVM/NRT/BLAS calls, prange threads) with the interpreted source; '
          'no engine in this sandbox executes that symbolically and a hand IR->SMT translator for allocating, '
          'BLAS-calling code is out of reach (DESIGN.md section 6)')
