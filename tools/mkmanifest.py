#!/usr/bin/env python3
"""Regenerate /verif/MANIFEST.json from the table below (kept next to the
harnesses so the two cannot drift far apart)."""
import json
import os

HERE = os.path.dirname(os.path.dirname(os.path.abspath(__file__)))

BASELINE = ("cd /repo && /venv/bin/python -m pytest -ra -q -p no:cacheprovider --timeout=900 "
            "--continue-on-collection-errors")

TECH = ("bounded symbolic execution of the real source on z3 terms (own concolic engine symx: "
        "solver-decided branches, forking concretisation), obligations discharged as unsat queries, "
        "counterexamples replayed on the real build")

# pid -> (claimed?, level text, level note, design ref, technique suffix)
CHECKS = {}
NOT_APPLICABLE = {}


def claim(pid, text, note, ref, tech=TECH):
    CHECKS[pid] = (text, note, ref, tech)


def na(pid, reason):
    NOT_APPLICABLE[pid] = reason


exec(open(os.path.join(HERE, 'tools', 'manifest_table.py')).read())

checks = []
for pid in sorted(CHECKS):
    text, note, ref, tech = CHECKS[pid]
    checks.append({
        'property_id': pid,
        'quick_cmd': './check %s --tier quick' % pid,
        'thorough_cmd': './check %s --tier thorough' % pid,
        'evidence_file': '/verif/evidence/%s.json' % pid,
        'replay_cmd_template': './check --replay {path}',
        'engine': 'symx',
        'level_claimed': {'category': 'model_checking', 'text': text, 'design_ref': ref},
        'level_note': note,
        'technique': tech,
    })

manifest = {
    'version': 1,
    'setup_cmd': './setup.sh',
    'hooks': {
        'guard': 'SANDIALABS_FAST_TICC_VERIF',
        'enable': 'none needed: the checks import /repo/src fresh and observe from outside by wrapping module '
                  'attributes in the checker process; the guard variable is reserved and unused',
        'baseline_off_cmd': BASELINE,
        'source_commits': [],
        'add_only': True,
    },
    'engines': [{
        'name': 'symx',
        'path': '/verif/symx',
        'serves_properties': sorted(CHECKS),
        'kind_free_text': 'symbolic execution of the real Python source on z3 proxy values over a pure-Python '
                          'NumPy shim; z3 5.1 (python API); replay under /venv/bin/python with real NumPy/Numba',
    }],
    'checks': checks,
    'not_applicable': [{'property_id': p, 'reason': r} for p, r in sorted(NOT_APPLICABLE.items())],
    'notes': 'See DESIGN.md. Exit codes of ./check: 0 held on everything explored, 1 replay-confirmed violation, '
             '2 inconclusive solver query, 3 harness error (engine mismatch / unsupported construct / vacuity).',
}
with open(os.path.join(HERE, 'MANIFEST.json'), 'w') as fh:
    json.dump(manifest, fh, indent=1)
print('MANIFEST.json: %d checks, %d not applicable' % (len(checks), len(NOT_APPLICABLE)))
