#!/bin/bash
# tools/seed_confirm.sh <seed-id> : confirm a seeded change in a scratch worktree of /repo HEAD:
# demo passes without it, fails with it, and the unedited test suite passes with it.
SID="$1"; D=/verif/seeded/$SID; WT=/tmp/confirm_$SID
git -C /repo worktree add -q --detach $WT HEAD || exit 9
trap 'git -C /repo worktree remove --force '$WT' >/dev/null 2>&1' EXIT
cd $WT
export PYTHONPATH=$WT/src
{
echo "base: $(git -C /repo rev-parse --short HEAD)  date: $(date -u +%FT%TZ)"
if [ -f $D/demo.py ]; then
  timeout 900 /venv/bin/python $D/demo.py > /tmp/confirm_$SID.out0 2>&1; echo "demo without change: exit $?"
fi
git apply $D/patch.diff && echo "patch applied" || { echo "PATCH DOES NOT APPLY"; exit 1; }
/venv/bin/python -c "import fast_ticc, sys; sys.exit(0 if fast_ticc.__file__.startswith('$WT') else 1)" && echo "imports from scratch worktree"
if [ -f $D/demo.py ]; then
  timeout 900 /venv/bin/python $D/demo.py > /tmp/confirm_$SID.out1 2>&1; echo "demo with change: exit $?"
  tail -3 /tmp/confirm_$SID.out1 | cut -c1-200
fi
timeout 1800 /venv/bin/python -m pytest -q -p no:cacheprovider --timeout=900 2>&1 | tail -1
} > $D/confirm.log 2>&1
rm -f /tmp/confirm_$SID.out0 /tmp/confirm_$SID.out1
cat $D/confirm.log
