#!/bin/bash
# tools/seed_all.sh [tier] : evaluate every seeded change against its property's check; prints a catch matrix
TIER="${1:-quick}"
cd /verif
for d in seeded/*/; do
  sid=$(basename $d)
  pid=$(python3 -c "import json;print(json.load(open('$d/meta.json'))['property'])")
  tools/seed_eval.sh $sid $pid $TIER | tail -1
done
