#!/bin/bash
TIER="$1"; shift
cd "$(dirname "$0")/.."
for p in "$@"; do
  s=$(date +%s)
  out=$(timeout 7200 ./check $p --tier $TIER --no-evidence 2>&1 | tail -1 | cut -c1-170)
  e=$(date +%s)
  echo "$p $((e-s))s :: $out"
done
