#!/bin/bash
# tools/collect_seed.sh <prop> <round-letter> <worktree> : copy a sub-agent's deliverables into seeded/<prop>-<letter>/ and drop the worktree
P="$1"; R="$2"; WT="$3"; D=/verif/seeded/$P-$R
mkdir -p $D
[ -d "$WT" ] || { echo "worktree $WT is gone"; exit 9; }
git -C $WT diff -- src > $D/patch.diff
cp $WT/_seed/demo.py $D/demo.py; cp $WT/_seed/notes.md $D/notes.md
python3 - "$P" "$R" <<'PY'
import json,sys,os
p,r=sys.argv[1:3]; d=f'/verif/seeded/{p}-{r}'
head=open(d+'/notes.md').read().split('\n')[0].lstrip('# ').strip()
json.dump({"property":p,"id":f"{p}-{r}","origin":"sub-agent, round "+{'a':'1','b':'2','c':'3','d':'4','e':'5','f':'6'}[r],"what":head,
           "files":sorted(f for f in os.listdir(d) if f!='meta.json')},open(d+'/meta.json','w'),indent=1)
PY
git -C /repo worktree remove --force $WT; git -C /repo worktree prune
echo "$P-$R: $(wc -l < $D/patch.diff) diff lines"
