#!/bin/bash
# tools/seed_eval_wt.sh <seed-id> <property> [tier]
# Like seed_eval.sh but leaves /repo alone: applies the patch in a throw-away worktree of /repo
# (outside /repo and /verif) and points the check at it through VERIF_REPO.  Used only while
# investigating; the catch matrix is produced by seed_eval.sh against /repo itself.
set -u
SID="$1"; PID="$2"; TIER="${3:-quick}"
D=/verif/seeded/$SID
WT=$(mktemp -d /tmp/seedwt_XXXXXX); rmdir "$WT"
git -C /repo worktree add --detach "$WT" HEAD >/dev/null 2>&1 || exit 9
trap 'git -C /repo worktree remove --force "$WT"; git -C /repo worktree prune' EXIT
git -C "$WT" apply "$D/patch.diff" || { echo "patch does not apply"; exit 9; }
cd /verif
VERIF_REPO="$WT" timeout 3000 ./check "$PID" --tier "$TIER" --no-evidence > "$D/wt_$PID.$TIER.log" 2>&1
rc=$?
grep -E "^VIOLATION|^KNOWN-FINDING|^ENGINE|^HARNESS|^INCONCLUSIVE| -> exit" "$D/wt_$PID.$TIER.log" | cut -c1-220 | head -8
echo "seed=$SID property=$PID tier=$TIER exit=$rc"
exit 0
