"""Real-build counterpart of harness/mainloop.py: runs the real front ends with
selected phases scripted from a witness (names are those the symbolic
summaries use: mu_r<round>_k<cluster>_<i>, S_..., Th_r<round>_k<cluster>_<i>_<j>)."""
import numpy as np

from .util import flt


def sym(inp, name, n, default_diag=1.0):
    M = np.zeros((n, n))
    for i in range(n):
        for j in range(i, n):
            key = '%s_%d_%d' % (name, i, j)
            v = flt(inp[key]) if key in inp else (default_diag if i == j else 0.0)
            M[i, j] = M[j, i] = v
    return M


def vec(inp, name, n):
    return np.array([flt(inp.get('%s_%d' % (name, i), 0)) for i in range(n)])


class Scripted:
    def __init__(self, inp, K, n, initial=None, relabel=None, scripted=('statistics', 'optimise', 'bic', 'ch', 'initial', 'repopulate'),
                 fault=None, mean_pattern=None):
        self.inp, self.K, self.n = inp, K, n
        self.initial = initial
        self.relabel = relabel          # list of label lists per round, or None (real)
        self.scripted = set(scripted)
        self.saved = []
        self.round = -1
        self.trace = []
        self.fault = fault
        self.kernel_calls = []
        self.final_state = None
        self.mean_pattern = mean_pattern
        self.stats_inputs = []

    def _patch(self, mod, name, new):
        self.saved.append((mod, name, getattr(mod, name)))
        setattr(mod, name, new)

    def __enter__(self):
        from fast_ticc import (cluster_label_assignment as cla, cluster_maintenance as cm, graphical_lasso as gl,
                               cluster_metrics as met)
        me = self
        real_stats, real_opt, real_pred = cm.update_all_cluster_statistics, gl.optimize_markov_random_fields, \
            cla.predict_cluster_labels
        real_repop = cm.repopulate_empty_clusters
        real_kernel = cla.assign_point_cluster_labels

        def stats(model, data):
            me.round += 1
            me.trace.append(('statistics', me.round))
            me.stats_inputs.append([int(x) for x in model.point_labels])
            if me.fault:
                me.fault(me.round, 'statistics')
            if 'statistics' not in me.scripted:
                return real_stats(model, data)
            new = model.shallow_copy()
            cl = []
            for k in range(len(model.clusters)):
                x = model.clusters[k].shallow_copy()
                if me.mean_pattern is not None:
                    x.stacked_data_mean = np.array([me.mean_pattern(me.round, k, j) for j in range(me.n)])
                else:
                    x.stacked_data_mean = vec(me.inp, 'mu_r%d_k%d' % (me.round, k), me.n)
                x.empirical_covariance = sym(me.inp, 'S_r%d_k%d' % (me.round, k), me.n)
                cl.append(x)
            new.clusters = cl
            return new

        def opt(model, data, pool):
            me.trace.append(('optimise', me.round))
            if me.fault:
                me.fault(me.round, 'optimise')
            if 'optimise' not in me.scripted:
                return real_opt(model, data, pool)
            new = model.shallow_copy()
            cl = []
            for k in range(len(model.clusters)):
                x = model.clusters[k].shallow_copy()
                x.train_inverse = sym(me.inp, 'Th_r%d_k%d' % (me.round, k), me.n)
                x.computed_covariance = sym(me.inp, 'Cv_r%d_k%d' % (me.round, k), me.n)
                x.log_determinant = flt(me.inp.get('ld_r%d_k%d' % (me.round, k), 0))
                cl.append(x)
            new.clusters = cl
            return new

        def pred(model, data):
            me.trace.append(('relabel', me.round))
            if me.fault:
                me.fault(me.round, 'relabel')
            if me.relabel is None:
                out = real_pred(model, data)
            else:
                out = model.shallow_copy()
                out.clusters = [x.deep_copy() for x in out.clusters]
                for x in out.clusters:
                    # the real labelling step publishes the matrix it priced with; the final
                    # per-point likelihood report reads it
                    if x.train_inverse is not None:
                        x.inverse_covariance = x.train_inverse
                out.point_labels = list(me.relabel[min(me.round, len(me.relabel) - 1)])
                out.label_assignment_cost = 0.0
            me.final_state = out
            return out

        def repop(model):
            me.trace.append(('repopulate', me.round + 1))
            if me.fault:
                me.fault(me.round + 1, 'repopulate')
            if 'repopulate' in me.scripted:
                return model
            return real_repop(model)

        def kernel(label_assignment_cost, label_switching_cost):
            r = real_kernel(label_assignment_cost, label_switching_cost)
            me.kernel_calls.append((np.array(label_assignment_cost, copy=True),
                                    np.array(label_switching_cost, copy=True), r))
            return r
        self._patch(cm, 'update_all_cluster_statistics', stats)
        self._patch(gl, 'optimize_markov_random_fields', opt)
        self._patch(cla, 'predict_cluster_labels', pred)
        self._patch(cm, 'repopulate_empty_clusters', repop)
        self._patch(cla, 'assign_point_cluster_labels', kernel)
        if 'initial' in self.scripted:
            self._patch(cla, 'build_initial_clusters',
                        lambda k, d: list(me.initial) if me.initial is not None else [i % k for i in range(len(d))])
        if 'bic' in self.scripted:
            self._patch(met, 'bayesian_information_criterion', lambda m: 0.0)
        if 'ch' in self.scripted:
            self._patch(met, 'calinski_harabasz_index', lambda d, m: 0.0)
        return self

    def __exit__(self, *a):
        for (mod, name, old) in reversed(self.saved):
            setattr(mod, name, old)
        return False
