"""C01 replay: the real labelling kernel vs. brute force over all K^T
sequences in exact Fraction arithmetic."""
import itertools
import os
import subprocess
import sys
import json
from fractions import Fraction

import numpy as np

from .util import frac, flt, close, exact


def _inputs(w):
    n = w['notes']
    T, K, form = n['T'], n['K'], n['form']
    inp = w['inputs']
    default = 1000 if n.get('wide') else 0
    cost = [[frac(inp.get('c_%d_%d' % (i, k), inp.get('ll_%d_%d' % (i, k), default))) for k in range(K)] for i in range(T)]
    if 'll_0_0' in inp:
        cost = [[-v for v in row] for row in cost]
    if form == 'vector':
        beta = [frac(inp.get('b_%d' % i, 0)) for i in range(T)]
    else:
        beta = [frac(inp.get('b', 0))] * T
    return T, K, form, cost, beta


def _cost_of(seq, cost, beta):
    t = sum(cost[i][s] for i, s in enumerate(seq))
    t += sum(beta[i] for i in range(len(seq) - 1) if seq[i] != seq[i + 1])
    return t


def _brute(T, K, cost, beta):
    if K ** T > 200000:
        raise ValueError('brute force too large')
    best = None
    for seq in itertools.product(range(K), repeat=T):
        v = _cost_of(seq, cost, beta)
        if best is None or v < best:
            best = v
    return best


def _table(T, K, cost, dtype='float64'):
    if dtype == 'int64':
        return np.array([[int(v) for v in row] for row in cost], dtype=np.int64).reshape(T, K)
    return np.array([[float(v) for v in row] for row in cost], dtype=np.float64).reshape(T, K)


def _run_kernel(T, K, form, cost, beta, table=None, readonly=False):
    from fast_ticc import cluster_label_assignment as cla
    if table is None:
        table = _table(T, K, cost)
    if readonly:
        table.flags.writeable = False
    b = np.array([float(v) for v in beta]) if form in ('vector', 'both') else float(beta[0])
    path, c = cla.assign_point_cluster_labels(table, b)
    return [int(p) for p in path], float(c)


def replay(w):
    T, K, form, cost, beta = _inputs(w)
    observed = {}
    reproduced = False
    # the harness hands the kernel a caller-owned table: read-only in the single-call configurations,
    # one writable table shared by both calls in the scalar-vs-vector configuration
    direct = 'll_0_0' not in w['inputs']
    table = _table(T, K, cost, (w.get('notes') or {}).get('table_dtype', 'float64'))
    keep = table.copy()
    try:
        if form == 'both':
            p_scalar, c_scalar = _run_kernel(T, K, 'scalar', cost, beta, table=table)
        path, c = _run_kernel(T, K, form, cost, beta, table=table, readonly=direct and form != 'both')
    except Exception as exc:
        return {'reproduced': True, 'signature': 'kernel-raises', 'observed': {'raised': repr(exc)}}
    best = _brute(T, K, cost, beta)
    ok_labels = len(path) == T and all(0 <= p < K for p in path)
    observed = {'path': path, 'reported_cost': c, 'brute_force_min': float(best)}
    if not ok_labels:
        return {'reproduced': True, 'signature': 'labels-out-of-range', 'observed': observed}
    pc = _cost_of(path, cost, beta)
    observed['cost_of_returned_path'] = float(pc)
    if not close(pc, c):
        reproduced = True
        sig = 'reported-cost-is-not-path-cost'
    elif not close(pc, best) and pc > best:
        reproduced = True
        sig = 'not-a-minimum'
    else:
        sig = None
    if form == 'both' and not reproduced:
        observed['scalar_form'] = {'path': p_scalar, 'cost': c_scalar}
        if p_scalar != path or not close(c_scalar, c):
            reproduced, sig = True, 'scalar-and-vector-forms-differ'
    if not np.array_equal(table.view(np.uint64), keep.view(np.uint64)) if table.dtype == np.float64 else not np.array_equal(table, keep):
        observed['table_after_call'] = table.tolist()
        if form == 'both':
            reproduced, sig = True, 'kernel-overwrites-the-callers-cost-table'
    return {'reproduced': reproduced, 'signature': sig, 'observed': observed,
            'jit_disabled': os.environ.get('NUMBA_DISABLE_JIT', '0')}


def validate(witnesses):
    checked = agree = skipped = 0
    disagree = []
    for w in witnesses:
        if 'path' not in w.get('outputs', {}):
            skipped += 1
            continue
        T, K, form, cost, beta = _inputs(w)
        vals = [v for row in cost for v in row] + list(beta)
        if not all(exact(v) for v in vals):
            skipped += 1
            continue
        path, c = _run_kernel(T, K, form, cost, beta, table=_table(T, K, cost, (w.get('notes') or {}).get('table_dtype', 'float64')))
        checked += 1
        exp_path = [int(p) for p in w['outputs']['path']]
        exp_cost = frac(w['outputs']['cost'])
        if path == exp_path and close(c, exp_cost):
            agree += 1
        else:
            disagree.append({'inputs': w['inputs'], 'expected': [exp_path, float(exp_cost)], 'real': [path, c]})
    return {'checked': checked, 'agree': agree, 'skipped': skipped, 'disagree': disagree[:5]}
