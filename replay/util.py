"""Helpers for the real-build replay side (no z3 here)."""
import os
from fractions import Fraction


def frac(v):
    if isinstance(v, Fraction):
        return v
    if isinstance(v, bool):
        return Fraction(int(v))
    if isinstance(v, int):
        return Fraction(v)
    if isinstance(v, float):
        return Fraction(v)
    if isinstance(v, str):
        if '/' in v:
            a, b = v.split('/')
            return Fraction(int(a), int(b))
        return Fraction(v)
    raise ValueError('not a number: %r' % (v,))


def flt(v):
    return float(frac(v))


def exact(v):
    """True iff the rational is exactly a binary64 value."""
    f = frac(v)
    return Fraction(float(f)) == f


def close(a, b, rel=1e-9, ab=1e-9):
    a, b = float(a), float(b)
    if a != a or b != b:
        return False
    return abs(a - b) <= ab + rel * max(abs(a), abs(b))


def jit_modes():
    """The kernels can be exercised interpreted (NUMBA_DISABLE_JIT=1) and
    compiled; the mode is fixed per process by the environment."""
    return os.environ.get('NUMBA_DISABLE_JIT', '0')
