"""C06 replay: the real front end with the fitting phases scripted from the
witness (real relabel step, real kernels, real result assembly); every field
relation is recomputed independently."""
import math

import numpy as np

from .util import flt, close
from .scripted import Scripted


def _logpdf(x, mu, Th):
    n = len(x)
    d = np.asarray(x, float) - np.asarray(mu, float)
    return 0.5 * (np.linalg.slogdet(Th)[1] - float(d @ Th @ d) - n * math.log(2 * math.pi))


def _data_pattern(i, j, s=0):
    return float(((i * 3 + j * 5 + s * 2) % 7) - 3) / 2.0


def _mean_pattern(r, k, j):
    return float(((r * 2 + k * 3 + j) % 5) - 2) / 2.0


def _run(w):
    import fast_ticc
    nt, inp = w['notes'], w.get('inputs') or {}
    T, K, n, lens, lim = int(nt['T']), int(nt['K']), int(nt['n']), [int(x) for x in nt['lens']], int(nt['lim'])
    if nt['form'] == 'scalar':
        b = flt(inp.get('b', 0))
        beta = [b] * T
    else:
        b = np.array([flt(inp.get('b_%d' % i, 0)) for i in range(T)])
        beta = list(b)
    kw = dict(window_size=1, num_clusters=K, iteration_limit=lim, min_cluster_size=1, sparsity_weight=0.1,
              label_switching_cost=b)
    sc = Scripted(inp, K, n, mean_pattern=_mean_pattern,
                  scripted=('statistics', 'optimise', 'initial'))     # repopulation and the metrics are real
    with sc:
        if nt.get('joint'):
            series = [np.array([[_data_pattern(i, j, s) for j in range(n)] for i in range(L)])
                      for s, L in enumerate(lens)]
            res = fast_ticc.ticc_joint_labels(list(series), **kw)
            data = np.vstack(series)
        else:
            data = np.array([[_data_pattern(i, j) for j in range(n)] for i in range(T)])
            res = fast_ticc.ticc_labels(data, **kw)
    return res, sc.final_state, data, beta, T, K, n, lens, bool(nt.get('joint'))


def judge(res, st, data, beta, T, K, n, lens, joint):
    labs = [int(l) for l in st.point_labels]
    obs = {'labels': labs}
    all_ll = [float(v) for v in res.all_log_likelihood]
    obs['n_entries'] = len(all_ll)
    empties = [k for k in range(K) if labs.count(k) == 0]
    dens = {i: _logpdf(data[i], st.clusters[l].stacked_data_mean, st.clusters[l].train_inverse)
            for i, l in enumerate(labs)}
    order = [i for k in range(K) for i in range(T) if labs[i] == k]
    want = [dens[i] for i in order]
    if len(all_ll) != T:
        obs['entries'] = all_ll
        phantom = len(all_ll) == T + len(empties) and sorted(all_ll) == sorted(want + [0.0] * len(empties))
        return ('phantom-zero-entry-for-empty-cluster' if phantom else 'wrong-number-of-likelihood-entries'), obs
    if any(not close(a, b) for a, b in zip(all_ll, want)):
        obs.update({'entries': all_ll, 'own_cluster_densities': want})
        return 'entries-are-not-own-cluster-densities', obs
    tot = sum(want)
    if not (close(res.overall_log_likelihood, tot) and close(res.overall_log_likelihood_mean, tot / T)
            and close(res.overall_log_likelihood_median, float(np.median(want)))):
        obs.update({'overall': [float(res.overall_log_likelihood), float(res.overall_log_likelihood_mean),
                                float(res.overall_log_likelihood_median)],
                    'want': [tot, tot / T, float(np.median(want))]})
        return 'overall-aggregates-wrong', obs
    for k in range(K):
        mine = [dens[i] for i in range(T) if labs[i] == k]
        wm, wd = (float(np.mean(mine)), float(np.median(mine))) if mine else (0.0, 0.0)
        if not (close(res.cluster_log_likelihood_mean[k], wm) and close(res.cluster_log_likelihood_median[k], wd)):
            obs.update({'cluster': k, 'got': [float(res.cluster_log_likelihood_mean[k]),
                                              float(res.cluster_log_likelihood_median[k])], 'want': [wm, wd]})
            return 'cluster-aggregates-wrong', obs
    ends, acc = set(), 0
    for L in lens[:-1]:
        acc += L
        ends.add(acc - 1)
    within = sum(beta[i] for i in range(T - 1) if labs[i] != labs[i + 1] and i not in ends)
    allp = sum(beta[i] for i in range(T - 1) if labs[i] != labs[i + 1])
    cost = float(res.label_assignment_cost)
    obs.update({'cost': cost, 'minus_ll_plus_within_series_switching': -tot + within})
    if not close(cost, -tot + within):
        if joint and close(cost, -tot + allp):
            return 'joint-cost-prices-boundary-pairs', obs
        return 'cost-relation-wrong', obs
    return None, obs


def replay(w):
    try:
        r = _run(w)
    except Exception as exc:
        return {'reproduced': True, 'signature': 'run-raises', 'observed': {'raised': repr(exc)}}
    sig, obs = judge(*r)
    return {'reproduced': sig is not None, 'signature': sig, 'observed': obs}


def validate(witnesses):
    checked = agree = skipped = 0
    disagree = []
    for w in witnesses:
        out = w.get('outputs') or {}
        if 'n_entries' not in out:
            skipped += 1
            continue
        try:
            res, st, data, beta, T, K, n, lens, joint = _run(w)
        except Exception as exc:
            disagree.append({'raised': repr(exc), 'inputs': w['inputs']})
            checked += 1
            continue
        checked += 1
        labs = [int(l) for l in st.point_labels]
        if len(res.all_log_likelihood) == int(out['n_entries']) and labs == [int(x) for x in w['notes'].get('labels', labs)]:
            agree += 1
        else:
            disagree.append({'inputs': w['inputs'], 'engine': [out['n_entries'], w['notes'].get('labels')],
                             'real': [len(res.all_log_likelihood), labs]})
    return {'checked': checked, 'agree': agree, 'skipped': skipped, 'disagree': disagree[:5]}
