"""C19 replay: real calls with read-only arguments and byte-wise snapshots."""
import numpy as np

from .util import flt


def _ro(a, dtype=float):
    a = np.array(a, dtype=dtype)
    a.setflags(write=False)
    return a


def _same(a, snap):
    return np.array_equal(np.asarray(a).view(np.uint64) if isinstance(a, np.ndarray) and a.dtype == np.float64 else a, snap)


def _boom(*a, **k):             # module level: the task is pickled for the worker process
    raise RuntimeError('injected')


def replay(w):
    import fast_ticc
    import fast_ticc.admm as admm
    from fast_ticc import cluster_label_assignment as cla, graphical_lasso as gl, data_preparation as dp
    nt = w.get('notes') or {}
    kind = nt.get('kind')
    rng = np.random.default_rng(11)
    args, call = [], None
    try:
        if kind == 'kernel':
            T, K = int(nt['T']), int(nt['K'])
            cost = _ro(rng.standard_normal((T, K)))
            beta = _ro(np.abs(rng.standard_normal(T))) if nt['form'] == 'vector' else 0.7
            args = [cost] + ([beta] if isinstance(beta, np.ndarray) else [])
            call = lambda: cla.assign_point_cluster_labels(cost, beta)
        elif kind == 'optimiser':
            N, W = int(nt['N']), int(nt['W'])
            n = N * W
            A = rng.standard_normal((n, n))
            S = _ro(A @ A.T + np.eye(n))
            lam = _ro(np.full((n, n), 0.2)) if nt['lam'] == 'matrix' else 0.2
            args = [S] + ([lam] if isinstance(lam, np.ndarray) else [])
            cb = (lambda rho, rp, tp, rd, td: rho * 2) if nt.get('cb') else None
            call = lambda: admm.admm_optimize_theta(S, lam, W, N, max_iterations=int(nt.get('maxit', 2)) + 3, rho_update=cb)
        elif kind == 'optimiser_writable':
            N, W = int(nt['N']), int(nt['W'])
            n = N * W
            A = rng.standard_normal((n, n))
            S = A @ A.T + np.eye(n)
            S[0, n - 1] += 1e-13                     # symmetric only up to round-off, writable, C-ordered
            lam = np.full((n, n), 0.2)
            args = [S, lam]
            call = lambda: admm.admm_optimize_theta(S, lam, W, N, max_iterations=3)
        elif kind == 'filter':
            M = _ro(rng.standard_normal((2, 2)))
            args = [M]
            call = lambda: gl._zero_small_elements(M, 0.5)
        elif kind == 'stacking':
            W, lens = int(nt['W']), [int(x) for x in nt['lens']]
            series = [_ro(rng.standard_normal((L, 2))) for L in lens]
            args = list(series)
            call = lambda: (dp.stack_training_data_multiple_series(list(series), W), dp.stack_training_data(series[0], W))
        elif kind in ('front', 'failing'):
            W = int(nt.get('W', 1))
            K = 2
            joint = bool(nt.get('joint'))
            series = [_ro(np.concatenate([rng.standard_normal((30, 1)) - 4, rng.standard_normal((30, 1)) + 4])) for _ in range(2 if joint else 1)]
            if nt.get('elem') == 'int64':
                series = [_ro(np.rint(3 * a), dtype=np.int64) for a in series]
            n = W
            lam = _ro(np.full((n, n), 0.1))
            T = sum(len(s) - W + 1 for s in series)
            beta = 5.0 if (joint and not nt.get('vector')) else np.full((T,), 5.0)
            if isinstance(beta, np.ndarray):
                if nt.get('inf_beta'):
                    beta[0] = np.inf
                beta = _ro(beta)
            args = series + [lam] + ([beta] if isinstance(beta, np.ndarray) else [])
            lst = list(series)
            kw = dict(window_size=W, num_clusters=K, iteration_limit=2, min_cluster_size=2, sparsity_weight=lam,
                      label_switching_cost=beta)
            if kind == 'failing' and int(nt.get('which', 0)) < 2:
                real = admm.admm_optimize_theta

                def call():
                    admm.admm_optimize_theta = _boom
                    try:
                        fast_ticc.ticc_labels(series[0], **kw)
                    except RuntimeError:
                        pass
                    finally:
                        admm.admm_optimize_theta = real
            elif kind == 'failing':
                def call():
                    try:
                        fast_ticc.ticc_labels(lst, window_size=1, num_clusters=2)
                    except TypeError:
                        pass
            else:
                call = (lambda: fast_ticc.ticc_joint_labels(lst, **kw)) if joint else (lambda: fast_ticc.ticc_labels(series[0], **kw))
        else:
            return {'reproduced': False, 'signature': None, 'observed': {'unhandled': kind}}
        snaps = [a.copy() for a in args]
        try:
            call()
        except ValueError as exc:
            if 'read-only' in str(exc):
                return {'reproduced': True, 'signature': 'writes-to-read-only-argument', 'observed': {'raised': repr(exc)}}
            return {'reproduced': True, 'signature': 'call-raises', 'observed': {'raised': repr(exc)}}
        bad = [i for i, (a, s) in enumerate(zip(args, snaps))
               if a.dtype != s.dtype or not np.array_equal(a.view(np.uint64), s.view(np.uint64))]
        if kind in ('front', 'failing') and (len(lst) != len(series) or any(x is not y for x, y in zip(lst, series))):
            return {'reproduced': True, 'signature': 'callers-list-of-series-rebound',
                    'observed': {'slot_types': [str(getattr(x, 'dtype', type(x))) for x in lst]}}
        return {'reproduced': bool(bad), 'signature': 'argument-modified' if bad else None, 'observed': {'modified_args': bad}}
    except Exception as exc:
        return {'reproduced': True, 'signature': 'call-raises', 'observed': {'raised': repr(exc)}}


def validate(witnesses):
    """Paths on which the engine saw no write to a caller-owned buffer: the real build, given
    read-only NumPy arrays of the same kinds, must neither raise nor change a byte."""
    import json
    checked = agree = skipped = 0
    disagree, seen = [], set()
    for w in witnesses:
        nt = w.get('notes') or {}
        key = json.dumps({k: v for k, v in nt.items() if k != 'maxit'}, sort_keys=True, default=str)
        if key in seen or len(seen) >= 24 or 'unexpected_exception' in nt:
            skipped += 1
            continue
        seen.add(key)
        r = replay(w)
        if 'unhandled' in (r.get('observed') or {}):
            skipped += 1
            continue
        checked += 1
        if r['reproduced']:
            disagree.append({'notes': nt, 'real_build': r})
        else:
            agree += 1
    return {'checked': checked, 'agree': agree, 'skipped': skipped, 'disagree': disagree[:5]}
