"""C20 replay: real front end, real process pool; faults injected by substituting the
public optimiser entry point (as the property's observe_at prescribes)."""
import gc
import multiprocessing
import os
import time

import numpy as np

_CALLS = {'n': 0}
_FAIL_AT = {'idx': None}


class Injected(Exception):
    pass


class InjectedAttributeError(AttributeError):
    pass


class InjectedIndexError(IndexError):
    pass


class InjectedValueError(ValueError):
    pass


class InjectedRuntimeError(RuntimeError):
    pass


_CLASSES = {'Exception': Injected, 'AttributeError': InjectedAttributeError, 'IndexError': InjectedIndexError,
            'ValueError': InjectedValueError, 'RuntimeError': InjectedRuntimeError}
_CLS = {'c': Injected}


def _failing(*a, **k):
    # runs inside a worker process (forked after the substitution)
    from fast_ticc.admm import front_end as real
    i = _CALLS['n']
    _CALLS['n'] += 1
    if _FAIL_AT['idx'] is not None and i == _FAIL_AT['idx']:
        if _FAIL_AT.get('bare'):
            raise _CLS['c']()                    # an exception without a message (a bare raise / assert)
        raise _CLS['c']('injected fault in optimisation task %d' % i)
    return real.admm_optimize_theta(*a, **k)


def _data(K=2, per=40, seed=3):
    rng = np.random.default_rng(seed)
    return np.concatenate([rng.standard_normal((per, 1)) + 8.0 * k for k in range(K)])


def _children():
    return [p for p in multiprocessing.active_children() if p.is_alive()]


def _bounded(w, limit=75):
    """Run the replay of one faulty call in a child interpreter with a time limit: a call that never
    comes back is the violation 'hangs' (and must not take the replay down with it)."""
    import json
    import signal
    import subprocess
    import sys
    import tempfile
    with tempfile.NamedTemporaryFile('w', suffix='.json', delete=False) as fh:
        json.dump(dict(w, _child=True), fh, default=str)
        path = fh.name
    code = ('import json,sys; from replay import c20; '
            'print("CHILD-RESULT " + json.dumps(c20.replay(json.load(open(sys.argv[1])))))')
    p = subprocess.Popen([sys.executable, '-c', code, path], stdout=subprocess.PIPE, stderr=subprocess.PIPE, text=True,
                         start_new_session=True)
    try:
        out, _ = p.communicate(timeout=limit)
    except subprocess.TimeoutExpired:
        try:
            os.killpg(p.pid, signal.SIGKILL)
        except OSError:
            pass
        p.communicate()
        os.unlink(path)
        return {'reproduced': True, 'signature': 'call-hangs',
                'observed': {'raised': None, 'note': 'the front-end call had not returned after %d s' % limit}}
    os.unlink(path)
    for line in reversed(out.splitlines()):
        if line.startswith('CHILD-RESULT '):
            return json.loads(line[len('CHILD-RESULT '):])
    return {'reproduced': False, 'signature': None, 'observed': {'child_failed': out[-300:]}}


def replay(w):
    import fast_ticc
    import fast_ticc.admm as admm
    nt = w.get('notes') or {}
    kind = nt.get('kind')
    if ((kind == 'task' and nt.get('has_message') is False) or kind == 'library_error') and not w.get('_child'):
        return _bounded(w)
    gc.collect()
    gc.disable()
    try:
        if kind in ('task', 'phase'):
            K, lim = int(nt.get('K', 2)), int(nt.get('limit', 1))
            env = nt.get('env')
            if env:
                os.environ['CUPCAKE_ENABLE_MULTIPROCESSING'] = str(env)
            else:
                os.environ.pop('CUPCAKE_ENABLE_MULTIPROCESSING', None)
            nproc = int(nt.get('nproc', 1))
            real = admm.admm_optimize_theta
            _CLS['c'] = _CLASSES.get(nt.get('fault_class', 'Exception'), Injected)
            _CALLS['n'] = 0
            _FAIL_AT['idx'] = (int(nt.get('round', 0)) * K + int(nt.get('cluster', 0))) if not env else 0
            _FAIL_AT['bare'] = nt.get('has_message') is False
            before = len(_children())
            admm.admm_optimize_theta = _failing
            raised, res = None, None
            try:
                kw = dict(window_size=1, num_clusters=K, iteration_limit=max(lim, int(nt.get('round', 0)) + 1),
                          min_cluster_size=2, sparsity_weight=0.1, label_switching_cost=5.0, num_processors=nproc)
                if nt.get('joint'):
                    d = _data(K)
                    res = fast_ticc.ticc_joint_labels([d[:len(d) // 2], d[len(d) // 2:]], **kw)
                else:
                    res = fast_ticc.ticc_labels(_data(K), **kw)
            except BaseException as exc:
                raised = exc
            finally:
                admm.admm_optimize_theta = real
            time.sleep(0.3)
            alive = len(_children()) - before
            obs = {'raised': repr(raised), 'returned_result': res is not None, 'live_children_after_call': alive}
            if raised is None:
                # the scripted round did not happen on this data (early convergence): no verdict
                return {'reproduced': False, 'signature': None, 'observed': dict(obs, note='fault position not reached')}
            if type(raised) is not _CLS['c']:
                return {'reproduced': True, 'signature': 'different-exception-surfaces', 'observed': obs}
            if alive > 0:
                return {'reproduced': True, 'signature': 'worker-processes-left-behind-after-failure', 'observed': obs}
            # a clean call afterwards
            r2 = fast_ticc.ticc_labels(_data(K), window_size=1, num_clusters=K, iteration_limit=2, min_cluster_size=2,
                                       sparsity_weight=0.1, label_switching_cost=5.0)
            np.random.seed(0)
            return {'reproduced': False, 'signature': None, 'observed': obs}
        if kind == 'donor':
            before = len(_children())
            try:
                from fast_ticc import cluster_label_assignment as cla
                real_pred = cla.predict_cluster_labels

                def collapse(model, data):
                    out = real_pred(model, data)
                    out.point_labels = [0] * len(out.point_labels)
                    return out
                cla.predict_cluster_labels = collapse
                try:
                    fast_ticc.ticc_labels(_data(2, per=4), window_size=1, num_clusters=2, iteration_limit=3,
                                          min_cluster_size=5, sparsity_weight=0.1, label_switching_cost=1.0)
                    raised = None
                except BaseException as exc:
                    raised = exc
                finally:
                    cla.predict_cluster_labels = real_pred
            finally:
                pass
            time.sleep(0.3)
            alive = len(_children()) - before
            obs = {'raised': repr(raised), 'live_children_after_call': alive}
            if not isinstance(raised, RuntimeError) or 'donor' not in str(raised).lower():
                return {'reproduced': True, 'signature': 'donor-shortage-not-a-clear-runtime-error', 'observed': obs}
            if alive > 0:
                return {'reproduced': True, 'signature': 'worker-processes-left-behind-after-failure', 'observed': obs}
            return {'reproduced': False, 'signature': None, 'observed': obs}
        if kind == 'library_error':
            # a nested-list sparsity weight: the library's own ValueError is raised inside the worker
            before = len(_children())
            raised, res = None, None
            try:
                kw = dict(window_size=1, num_clusters=2, iteration_limit=2, min_cluster_size=2, sparsity_weight=[[0.1]],
                          label_switching_cost=5.0)
                if nt.get('joint'):
                    d = _data(2)
                    res = fast_ticc.ticc_joint_labels([d[:len(d) // 2], d[len(d) // 2:]], **kw)
                else:
                    res = fast_ticc.ticc_labels(_data(2), **kw)
            except BaseException as exc:
                raised = exc
            time.sleep(0.3)
            alive = len(_children()) - before
            obs = {'raised': repr(raised), 'returned_result': res is not None, 'live_children_after_call': alive}
            if res is not None or not isinstance(raised, ValueError) or 'ambda' not in str(raised):
                return {'reproduced': True, 'signature': 'library-error-of-a-task-does-not-surface', 'observed': obs}
            if alive > 0:
                return {'reproduced': True, 'signature': 'worker-processes-left-behind-after-failure', 'observed': obs}
            return {'reproduced': False, 'signature': None, 'observed': obs}
        if kind == 'donor_budget':
            from fast_ticc import cluster_label_assignment as cla, cluster_maintenance as cm
            K, m, sizes, joint = int(nt['K']), int(nt['m']), [int(x) for x in nt['sizes']], bool(nt.get('joint'))
            P = sum(sizes)
            needy = [k for k in range(K) if sizes[k] < 2]
            offered = sum(sz // m - 1 for sz in sizes if sz >= 2 * m)
            must_raise = offered < len(needy)
            blocks = [k for k in range(K) for _ in range(sizes[k])]
            rng = np.random.default_rng(11)
            data = rng.standard_normal((P, 1)) + np.arange(P).reshape(-1, 1)
            real_pred, real_init, real_repop = cla.predict_cluster_labels, cla.build_initial_clusters, \
                cm.repopulate_empty_clusters
            state = {'round': 0, 'repop_calls': 0}

            def pred(model, d):
                out = real_pred(model, d)
                if state['round'] == 0:
                    out.point_labels = list(blocks)
                state['round'] += 1
                return out

            def repop(model):
                state['repop_calls'] += 1
                return real_repop(model)
            cla.predict_cluster_labels = pred
            cla.build_initial_clusters = lambda k, d: [i % k for i in range(len(d))]
            cm.repopulate_empty_clusters = repop
            before = len(_children())
            res = raised = None
            try:
                kw = dict(window_size=1, num_clusters=K, iteration_limit=2,
                          min_cluster_size=np.uint8(m) if nt.get('m_form') == 'np.uint8' else m, sparsity_weight=0.1,
                          label_switching_cost=1.0, biased_covariance=True)
                if joint:
                    cut = max(1, P // 2)
                    res = fast_ticc.ticc_joint_labels([data[:cut], data[cut:]], **kw)
                else:
                    res = fast_ticc.ticc_labels(data, **kw)
            except BaseException as exc:
                raised = exc
            finally:
                cla.predict_cluster_labels, cla.build_initial_clusters = real_pred, real_init
                cm.repopulate_empty_clusters = real_repop
            time.sleep(0.2)
            alive = len(_children()) - before
            obs = {'sizes': sizes, 'm': m, 'must_raise': must_raise, 'raised': repr(raised),
                   'returned_result': res is not None, 'live_children_after_call': alive}
            if state['repop_calls'] == 0:
                return {'reproduced': False, 'signature': None, 'observed': dict(obs, note='repopulation never reached')}
            clear = isinstance(raised, RuntimeError) and 'donor' in str(raised).lower()
            if must_raise and res is not None:
                return {'reproduced': True, 'signature': 'donor-shortage-returns-a-result', 'observed': obs}
            if must_raise and not clear:
                return {'reproduced': True, 'signature': 'donor-shortage-not-a-clear-runtime-error', 'observed': obs}
            if not must_raise and clear:
                return {'reproduced': True, 'signature': 'donor-error-although-donors-suffice', 'observed': obs}
            if raised is not None and alive > 0:
                return {'reproduced': True, 'signature': 'worker-processes-left-behind-after-failure', 'observed': obs}
            return {'reproduced': False, 'signature': None, 'observed': obs}
        if kind == 'wrong_input':
            a = np.zeros((5, 1))
            msgs = []
            for f, arg, other in ((fast_ticc.ticc_labels, [a, a], 'ticc_joint_labels'),
                                  (fast_ticc.ticc_joint_labels, a, 'ticc_labels')):
                try:
                    f(arg, window_size=2, num_clusters=2)
                    msgs.append('no exception')
                except TypeError as exc:
                    msgs.append(None if other in str(exc) else 'TypeError does not name %s: %s' % (other, exc))
                except BaseException as exc:
                    msgs.append(repr(exc))
            bad = [m for m in msgs if m]
            return {'reproduced': bool(bad), 'signature': 'wrong-input-kind-not-a-clear-type-error' if bad else None,
                    'observed': {'problems': bad}}
    finally:
        gc.enable()
    return {'reproduced': False, 'signature': None, 'observed': {'unhandled': kind}}


def validate(witnesses):
    """The engine found the property to hold on these fault schedules: the real build (real pool,
    real worker processes) must agree."""
    checked = agree = skipped = 0
    disagree = []
    for w in witnesses:
        nt = w.get('notes') or {}
        if nt.get('kind') != 'task' or checked >= 10:
            skipped += 1
            continue
        r = replay({'notes': nt, 'inputs': w.get('inputs'), 'obligation': 'task_fault_propagates_unchanged'})
        if r['observed'].get('note') == 'fault position not reached':
            skipped += 1
            continue
        checked += 1
        if not r['reproduced']:
            agree += 1
        else:
            disagree.append({'notes': nt, 'real': r})
    return {'checked': checked, 'agree': agree, 'skipped': skipped, 'disagree': disagree[:5]}
