"""Counterexample / path-witness replay against the REAL build.

Runs under /venv/bin/python (real NumPy, Numba, scikit-learn) with
PYTHONPATH=/repo/src.  Nothing from the symbolic engine is imported here.
"""
import importlib
import json
import sys
import traceback


def main():
    path = sys.argv[1]
    with open(path) as fh:
        w = json.load(fh)
    pid = w['property']
    try:
        mod = importlib.import_module('replay.' + pid.lower())
        if w.get('mode') == 'validate':
            r = mod.validate(w['witnesses'])
            r.setdefault('ok', True)
        else:
            r = mod.replay(w)
            r.setdefault('ok', True)
        r['property'] = pid
    except Exception as exc:
        r = {'ok': False, 'property': pid, 'error': repr(exc), 'trace': traceback.format_exc(limit=10)}
    print('REPLAY-RESULT ' + json.dumps(r, default=str))
    sys.stdout.flush()
    # leave at once: a replayed failure may have left a process pool behind whose exit handler would block
    import os
    os._exit(0)


if __name__ == '__main__':
    main()
