"""Counterexample / path-witness replay against the REAL build.

Runs under /venv/bin/python (real NumPy, Numba, scikit-learn) with
PYTHONPATH=/repo/src.  Nothing from the symbolic engine is imported here.
"""
import importlib
import json
import sys
import traceback


def set_library_logging(debug):
    """DEBUG on / off for every fast_ticc logger (records go to a NullHandler)."""
    import logging
    lg = logging.getLogger('fast_ticc')
    if not any(isinstance(h, logging.NullHandler) for h in lg.handlers):
        lg.addHandler(logging.NullHandler())
    lg.propagate = False
    lg.setLevel(logging.DEBUG if debug else logging.WARNING)


def _validate(mod, witnesses):
    """Witnesses are replayed under the log level of their path."""
    total = None
    for dbg in (False, True):
        group = [x for x in witnesses if bool((x.get('notes') or {}).get('debug_logging')) == dbg]
        if not group:
            continue
        set_library_logging(dbg)
        r = mod.validate(group)
        if total is None:
            total = r
        else:
            for k in ('checked', 'agree', 'skipped'):
                total[k] = total.get(k, 0) + r.get(k, 0)
            total['disagree'] = (total.get('disagree') or []) + (r.get('disagree') or [])
    set_library_logging(False)
    return total if total is not None else {'checked': 0, 'agree': 0, 'skipped': 0, 'disagree': []}


def main():
    path = sys.argv[1]
    with open(path) as fh:
        w = json.load(fh)
    pid = w['property']
    try:
        mod = importlib.import_module('replay.' + pid.lower())
        if w.get('mode') == 'validate':
            r = _validate(mod, w['witnesses'])
            r.setdefault('ok', True)
        else:
            set_library_logging(bool((w.get('notes') or {}).get('debug_logging')))
            r = mod.replay(w)
            r.setdefault('ok', True)
        r['property'] = pid
    except Exception as exc:
        r = {'ok': False, 'property': pid, 'error': repr(exc), 'trace': traceback.format_exc(limit=10)}
    print('REPLAY-RESULT ' + json.dumps(r, default=str))
    sys.stdout.flush()
    # leave at once: a replayed failure may have left a process pool behind whose exit handler would block
    import os
    os._exit(0)


if __name__ == '__main__':
    main()
