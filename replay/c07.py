"""C07 replay: the mask helper and the joint front end on the real build."""
import itertools

import numpy as np

from .util import flt, close
from .scripted import Scripted
from .c06 import _data_pattern, _mean_pattern


def _boundary_pairs(lens):
    out, acc = set(), 0
    for L in lens[:-1]:
        acc += L
        out.add(acc - 1)
    return out


def _template(lens):
    from fast_ticc import data_preparation as dp
    tpl = np.asarray(dp.label_switching_cost_template(list(lens)), dtype=float)
    total = sum(lens)
    bp = _boundary_pairs(lens)
    want = [0.0 if i in bp else 1.0 for i in range(total)]
    if tpl.shape != (total,) or any(tpl[i] != want[i] for i in range(total - 1)):
        return 'template-zero-misplaced', {'lens': list(lens), 'template': tpl.tolist(), 'want_first_total_minus_1': want[:-1]}
    return None, {}


def _joint(w):
    import fast_ticc
    nt, inp = w['notes'], w.get('inputs') or {}
    lens, K = [int(x) for x in nt['lens']], int(nt['K'])
    T = sum(lens)
    b = flt(inp.get('b', 0))
    series = [np.array([[_data_pattern(i, 0, s)] for i in range(L)]) for s, L in enumerate(lens)]
    sc = Scripted(inp, K, 1, mean_pattern=_mean_pattern)
    with sc:
        res = fast_ticc.ticc_joint_labels(list(series), window_size=1, num_clusters=K, iteration_limit=1,
                                          min_cluster_size=1, sparsity_weight=0.1, label_switching_cost=b)
    table, seen_beta, (path, cost) = sc.kernel_calls[-1]
    return res, table, np.asarray(seen_beta, dtype=float), [int(p) for p in path], float(cost), lens, K, T, b


def _cost(seq, table, pair_cost):
    return sum(table[i][s] for i, s in enumerate(seq)) + sum(pair_cost[i] for i in range(len(seq) - 1)
                                                             if seq[i] != seq[i + 1])


def replay(w):
    ob = w['obligation']
    try:
        if ob == 'template_zero_exactly_on_boundary_pairs':
            if w['notes'].get('after_joint_run'):
                _joint(w)                      # the same joint run first, in this process
            sig, obs = _template([int(x) for x in w['notes']['lens']])
            return {'reproduced': sig is not None, 'signature': sig, 'observed': obs}
        if ob == 'no_window_mixes_two_series':
            from .c10 import replay as r10
            w2 = dict(w)
            w2['obligation'] = 'multi_is_concatenation_in_order'
            w2['notes'] = dict(w['notes'], N=1)
            return r10(w2)
        if ob == 'joint_of_one_series_equals_single':
            import fast_ticc
            nt, inp = w['notes'], w.get('inputs') or {}
            T, K, b = int(nt['T']), int(nt['K']), flt(inp.get('b', 0))
            W = int(nt.get('W', 1))
            X = np.array([[_data_pattern(i, 0)] for i in range(T + W - 1)])
            kw = dict(window_size=W, num_clusters=K, iteration_limit=1, min_cluster_size=1, sparsity_weight=0.1,
                      label_switching_cost=b)
            with Scripted(inp, K, W, mean_pattern=_mean_pattern):
                j = fast_ticc.ticc_joint_labels([X], **kw)
            with Scripted(inp, K, W, mean_pattern=_mean_pattern):
                s = fast_ticc.ticc_labels(X, **kw)
            same = list(j.point_labels[0]) == list(s.point_labels) and close(j.label_assignment_cost, s.label_assignment_cost)
            return {'reproduced': not same, 'signature': None if same else 'joint-of-one-series-differs-from-single',
                    'observed': {'joint': [list(map(int, j.point_labels[0])), float(j.label_assignment_cost)],
                                 'single': [list(map(int, s.point_labels)), float(s.label_assignment_cost)]}}
        res, table, seen_beta, path, cost, lens, K, T, b = _joint(w)
    except Exception as exc:
        return {'reproduced': True, 'signature': 'run-raises', 'observed': {'raised': repr(exc)}}
    rows = int(np.asarray(table).shape[0])
    lists = res.point_labels
    complete = rows == T and isinstance(lists, list) and [len(x) for x in lists] == lens
    if ob == 'every_series_reaches_the_labelling_step' or not complete:
        return {'reproduced': not complete, 'signature': None if complete else 'a-series-is-missing-from-the-joint-run',
                'observed': {'series_lengths': lens, 'rows_labelled': rows,
                             'label_lists': [len(x) for x in lists] if isinstance(lists, list) else repr(type(lists))}}
    bp = _boundary_pairs(lens)
    want = [0.0 if i in bp else b for i in range(T)]
    obs = {'beta_seen_by_kernel': seen_beta.tolist(), 'expected_per_pair': want[:-1], 'labels': path}
    masked = seen_beta.shape == (T,) and all(close(seen_beta[i], want[i]) for i in range(T - 1))
    if ob == 'masked_cost_reaches_labelling_step':
        if masked:
            return {'reproduced': False, 'signature': None, 'observed': obs}
        unmasked = seen_beta.ndim == 0 or (seen_beta.shape == (T,) and all(close(v, b) for v in seen_beta[:T - 1]))
        return {'reproduced': True, 'observed': obs,
                'signature': 'joint-mask-never-reaches-labelling-step' if unmasked else 'labelling-step-sees-wrong-per-pair-cost'}
    # composition
    best = min(_cost(q, table, want) for q in itertools.product(range(K), repeat=T))
    mine = _cost(path, table, want)
    allp = [b] * T
    obs.update({'within_series_cost_of_returned': mine, 'within_series_optimum': best, 'reported': float(res.label_assignment_cost)})
    if close(mine, best) and close(float(res.label_assignment_cost), mine):
        return {'reproduced': False, 'signature': None, 'observed': obs}
    best_all = min(_cost(q, table, allp) for q in itertools.product(range(K), repeat=T))
    priced = close(_cost(path, table, allp), best_all) and close(float(res.label_assignment_cost), _cost(path, table, allp))
    return {'reproduced': True, 'observed': obs,
            'signature': 'joint-labelling-prices-boundary-pairs' if priced else 'joint-labelling-not-optimal'}


def validate(witnesses):
    checked = agree = skipped = 0
    disagree = []
    for w in witnesses:
        out = w.get('outputs') or {}
        nt = w.get('notes') or {}
        if 'template' in out:
            from fast_ticc import data_preparation as dp
            tpl = np.asarray(dp.label_switching_cost_template([int(x) for x in nt['lens']]), dtype=float)
            checked += 1
            if tpl.tolist() == [flt(v) for v in out['template']]:
                agree += 1
            else:
                disagree.append({'lens': nt['lens'], 'real': tpl.tolist(), 'engine': out['template']})
        elif 'labels' in out and 'K' in nt and not nt.get('one_series'):
            try:
                r = _joint(w)
            except Exception as exc:
                disagree.append({'raised': repr(exc)})
                checked += 1
                continue
            checked += 1
            if r[3] == [int(x) for x in out['labels']]:
                agree += 1
            else:
                disagree.append({'inputs': w['inputs'], 'real': r[3], 'engine': out['labels']})
        else:
            skipped += 1
    return {'checked': checked, 'agree': agree, 'skipped': skipped, 'disagree': disagree[:5]}
