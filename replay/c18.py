"""C18 replay: the real optimiser entry point / kernel / filter with the
hyper-parameter in each type form, compared bitwise with the python-float form."""
import numpy as np

from .util import flt

FORMS = {'float': float, 'int': int, 'np.float64': np.float64, 'np.float32': np.float32, 'np.int64': np.int64,
         'np.float16': np.float16, 'np.int32': np.int32, 'np.uint8': np.uint8, 'np.uint16': np.uint16,
         'np.uint64': np.uint64, 'np.uint32': np.uint32}
INT_TAGS = ('int', 'np.int64', 'np.int32', 'np.uint8', 'np.uint16', 'np.uint32', 'np.uint64')


def replay(w):
    import fast_ticc.admm as admm
    from fast_ticc import cluster_label_assignment as cla, graphical_lasso as gl
    nt, inp = w.get('notes') or {}, w.get('inputs') or {}
    kind = nt.get('kind')
    try:
        if kind in ('type', 'value'):
            N, W = int(nt['N']), int(nt['W'])
            n = N * W
            worst = None
            for seed in range(6):
                rng = np.random.default_rng(seed)
                A = rng.standard_normal((n, n))
                S = A @ A.T / n + 0.1 * np.eye(n)
                tag = nt.get('tag')
                vals = [0.01, 0.25]
                if 'lam' in inp and abs(flt(inp['lam'])) not in vals:
                    vals = [abs(flt(inp['lam']))] + vals          # the witness's own value first (it may be exactly 0)
                if kind == 'type':
                    vals = [1, 2] if tag in INT_TAGS else [float(FORMS[tag](0.11)), float(FORMS[tag](0.37))]
                rhos = [1.0]
                if kind == 'value':
                    # the ADMM penalty of the witness (the Z-update obligation is for every rho > 0), and 2
                    r0 = abs(flt(inp.get('rho', 1))) or 1.0
                    rhos = sorted({1.0, 2.0, min(max(r0, 0.05), 20.0)})
                for val, rho in [(v, r) for v in vals for r in rhos]:
                    ref = admm.admm_optimize_theta(S, float(val), W, N, max_iterations=25, rho=rho).theta
                    if kind == 'value':
                        got = admm.admm_optimize_theta(S, np.full((n, n), float(val)), W, N, max_iterations=25, rho=rho).theta
                        sig = 'scalar-vs-matrix-lambda-differ'
                    else:
                        got = admm.admm_optimize_theta(S, FORMS[nt['tag']](val), W, N, max_iterations=25).theta
                        sig = 'lambda-type-form-differs'
                    if not np.array_equal(np.asarray(got, float).view(np.uint64), np.asarray(ref, float).view(np.uint64)) if kind == 'type' else not np.allclose(got, ref, rtol=1e-9, atol=1e-12):
                        return {'reproduced': True, 'signature': sig,
                                'observed': {'lambda': val, 'rho': rho, 'ref': np.asarray(ref).tolist(), 'got': np.asarray(got).tolist()}}
                    worst = {'ref': np.asarray(ref).tolist(), 'got': np.asarray(got).tolist()}
            return {'reproduced': False, 'signature': None, 'observed': worst}
        if kind == 'beta':
            T, K = int(nt['T']), int(nt['K'])
            cost = np.array([[flt(inp.get('c_%d_%d' % (i, k), 0)) for k in range(K)] for i in range(T)])
            val = flt(inp.get('b', 1)) if nt['tag'] not in INT_TAGS else int(flt(inp.get('b', 1)))
            val = float(FORMS[nt['tag']](val)) if nt['tag'] not in INT_TAGS else val
            p1, c1 = cla.assign_point_cluster_labels(cost, FORMS[nt['tag']](val))
            p2, c2 = cla.assign_point_cluster_labels(cost, np.full((T,), float(val)))
            bad = [int(x) for x in p1] != [int(x) for x in p2] or float(c1) != float(c2)
            return {'reproduced': bad, 'signature': 'beta-forms-differ' if bad else None,
                    'observed': {'scalar': [[int(x) for x in p1], float(c1)], 'vector': [[int(x) for x in p2], float(c2)]}}
        if kind == 'floor':
            M = np.array([[flt(inp.get('m_%d_%d' % (i, j), 0)) for j in range(2)] for i in range(2)])
            val = flt(inp.get('eps', 1)) if nt['tag'] not in INT_TAGS else int(flt(inp.get('eps', 1)))
            val = float(FORMS[nt['tag']](val)) if nt['tag'] not in INT_TAGS else val
            a = gl._zero_small_elements(M, FORMS[nt['tag']](val))
            b = gl._zero_small_elements(M, float(val))
            bad = not np.array_equal(a, b)
            return {'reproduced': bad, 'signature': 'floor-forms-differ' if bad else None, 'observed': {}}
        if kind in ('forward_beta_forms', 'forward'):
            return _forward(w)
    except Exception as exc:
        return {'reproduced': True, 'signature': 'parameter-form-rejected', 'observed': {'raised': repr(exc), 'form': nt.get('tag')}}
    return {'reproduced': False, 'signature': None, 'observed': {'unhandled': kind}}


class _Stop(Exception):
    pass


def _forward(w):
    """What reaches the main loop through the real front ends, for beta as a scalar and as a filled
    vector (and, for kind 'forward', that lambda / eps / scalar beta arrive as given)."""
    import fast_ticc
    from fast_ticc import main_loop, front_end
    nt, inp = w['notes'], w.get('inputs') or {}
    joint = bool(nt.get('joint'))
    lens = [int(x) for x in nt.get('lens', [2, 2] if joint else [3])]
    b = abs(flt(inp.get('b', 2.5))) or 2.5
    total = sum(lens)
    seen = []
    real_fit = main_loop.fit_stacked_data

    def spy(user_args, stacked):
        seen.append(user_args)
        raise _Stop()
    main_loop.fit_stacked_data = spy
    vec = np.full(total, b)
    lam = np.array([[0.3]])
    try:
        for form in (b, vec):
            data = [np.arange(L, dtype=float).reshape(-1, 1) for L in lens]
            kw = dict(window_size=1, num_clusters=2, iteration_limit=1, min_cluster_size=1, sparsity_weight=lam,
                      label_switching_cost=form, min_meaningful_covariance=0.25)
            try:
                (fast_ticc.ticc_joint_labels if joint else fast_ticc.ticc_labels)(data if joint else data[0], **kw)
            except _Stop:
                pass
    finally:
        main_loop.fit_stacked_data = real_fit
    if len(seen) != 2:
        return {'reproduced': True, 'signature': 'front-end-did-not-reach-the-main-loop-once-per-call',
                'observed': {'calls': len(seen)}}

    def effective(a):
        v = a.label_switching_cost
        return [float(x) for x in np.asarray(v, float).ravel()] if isinstance(v, np.ndarray) else [float(v)] * total
    e1, e2 = effective(seen[0]), effective(seen[1])
    if len(e1) != len(e2) or e1[:total - 1] != e2[:total - 1]:
        return {'reproduced': True, 'signature': 'scalar-and-filled-vector-beta-reach-the-main-loop-differently',
                'observed': {'scalar_form': e1, 'vector_form': e2, 'lens': lens}}
    if nt.get('kind') == 'forward':
        a = seen[0]
        if a.sparsity_weight is not lam or a.min_meaningful_covariance != 0.25:
            return {'reproduced': True, 'signature': 'front-end-alters-a-hyper-parameter', 'observed': {}}
    return {'reproduced': False, 'signature': None, 'observed': {'scalar_form': e1, 'vector_form': e2}}


def validate(witnesses):
    from fast_ticc.admm import solver
    from fast_ticc.containers import arguments
    checked = agree = skipped = 0
    disagree = []
    for w in witnesses:
        nt, inp, out = w.get('notes') or {}, w.get('inputs') or {}, w.get('outputs') or {}
        if nt.get('kind') != 'type' or 'z' not in out:
            skipped += 1
            continue
        N, W = int(nt['N']), int(nt['W'])
        n = N * W
        L = n * (n + 1) // 2
        x = np.array([flt(inp.get('x_%d' % k, 0)) for k in range(L)])
        u = np.array([flt(inp.get('u_%d' % k, 0)) for k in range(L)])
        lam = FORMS[nt['tag']](flt(inp.get('lam', 0))) if nt['tag'] not in INT_TAGS else FORMS[nt['tag']](int(flt(inp.get('lam', 0))))
        if nt['tag'] in ('np.float32',) and float(lam) != flt(inp.get('lam', 0)):
            skipped += 1
            continue
        args = arguments.ADMMArguments(window_size=W, num_data_series=N, rho=flt(inp.get('rho', 1)), rho_update=None,
                                       sparsity_weight=lam, absolute_tolerance=1e-6, relative_tolerance=1e-6,
                                       max_iterations=1, verbose=False)
        try:
            z = np.asarray(solver.admm_update_z(args, u, x), float)
        except Exception as exc:
            disagree.append({'raised': repr(exc), 'tag': nt['tag']})
            checked += 1
            continue
        checked += 1
        if np.allclose(z, [flt(v) for v in out['z']], rtol=1e-9, atol=1e-12):
            agree += 1
        else:
            disagree.append({'inputs': inp, 'real': z.tolist(), 'engine': out['z'], 'tag': nt['tag']})
    return {'checked': checked, 'agree': agree, 'skipped': skipped, 'disagree': disagree[:5]}
