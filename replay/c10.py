"""C10 replay: stacking helpers on the real build with adversarial float
payloads (NaN payloads, infinities, negative zero), compared bit for bit."""
import numpy as np


def _payload(seed, shape, inputs=None, name='d'):
    """Adversarial binary64 payloads; cells the solver's counterexample names (``d_i_j`` as a
    64-bit pattern) are taken from it."""
    n = int(np.prod(shape))
    rng = np.random.default_rng(seed)
    bits = rng.integers(0, 2 ** 63, size=n, dtype=np.uint64) * 2 + rng.integers(0, 2, size=n, dtype=np.uint64)
    special = [0x8000000000000000, 0x7ff0000000000001, 0x7ff8000000000001, 0xfff8dead0000beef,
               0x7ff0000000000000, 0xfff0000000000000, 0x0000000000000001]
    for i in range(len(special)):
        bits[(i + seed) % n] = special[i] if i < n else bits[(i + seed) % n]
    bits = bits.reshape(shape)
    for idx in np.ndindex(*shape):
        v = (inputs or {}).get(name + ''.join('_%d' % i for i in idx))
        if isinstance(v, int):
            bits[idx] = np.uint64(v % (1 << 64))
    return bits.view(np.float64).reshape(shape).copy()


def _same(a, b):
    return a.shape == b.shape and np.array_equal(np.ascontiguousarray(a).view(np.uint64),
                                                 np.ascontiguousarray(b).view(np.uint64))


def _check_stack(T, N, W, seed=0, inputs=None, first=None, order='C'):
    from fast_ticc import data_preparation as dp
    if first:
        # call history of the witness: another geometry stacked first, in this process
        try:
            dp.stack_training_data(_payload(seed + 17, (int(first['T']), int(first['N'])), inputs, 'e'), int(first['W']))
        except Exception:
            pass
    data = _payload(seed, (T, N), inputs)
    if order == 'F':
        data = np.asfortranarray(data)
    keep = data.copy()
    out = dp.stack_training_data(data, W)
    if out.shape != (T - W + 1, N * W):
        return 'stack-shape-wrong', {'shape': list(out.shape)}
    for i in range(T - W + 1):
        for j in range(W):
            if not _same(out[i, j * N:(j + 1) * N], keep[i + j, :]):
                return 'stack-not-exact-copy', {'row': i, 'block': j}
    if not _same(data, keep):
        return 'stack-modified-input', {}
    return None, {}


def replay(w):
    from fast_ticc import data_preparation as dp
    ob = w['obligation']
    n = w.get('notes') or {}
    obs, sig = {}, None
    try:
        if ob.startswith('stack_'):
            sig, obs = _check_stack(int(n['T']), int(n['N']), int(n.get('W', w['inputs'].get('W', 1))), inputs=w['inputs'],
                                    first=n.get('first'), order=n.get('order', 'C'))
        elif ob == 'multi_is_concatenation_in_order':
            W, N, lens = int(n['W']), int(n['N']), [int(x) for x in n['lens']]
            series = [_payload(s + 1, (L, N), w['inputs'], 'd%d' % s) for s, L in enumerate(lens)]
            keep = [a.copy() for a in series]
            out = dp.stack_training_data_multiple_series(list(series), W)
            ref = np.vstack([dp.stack_training_data(a, W) for a in keep]) if False else None
            off = 0
            for s, L in enumerate(lens):
                for i in range(L - W + 1):
                    for j in range(W):
                        if off + i >= out.shape[0] or not _same(out[off + i, j * N:(j + 1) * N], keep[s][i + j, :]):
                            sig = 'joint-stack-is-not-concatenation'
                            obs = {'series': s, 'row': i}
                off += L - W + 1
            if sig is None and out.shape != (off, N * W):
                sig = 'joint-stack-shape-wrong'
        else:
            W, lens = int(n['W']), [int(x) for x in n['lens']]
            inp = w['inputs']
            joint = [int(inp.get('lab_%d' % i, 0)) for i in range(sum(lens))]
            parts = dp.split_joint_labels(list(joint), list(lens))
            off = 0
            front = (W - 1) // 2
            for s, L in enumerate(lens):
                p = dp.pad_missing_labels(parts[s], W)
                exp = [-1] * front + joint[off:off + L] + [-1] * (W - 1 - front)
                if list(p) != exp:
                    sig = 'split-pad-does-not-restore'
                    obs = {'series': s, 'got': list(p), 'expected': exp}
                off += L
    except Exception as exc:
        sig, obs = 'helper-raises', {'raised': repr(exc)}
    return {'reproduced': sig is not None, 'signature': sig, 'observed': obs}


def validate(witnesses):
    checked = agree = skipped = 0
    disagree = []
    from fast_ticc import data_preparation as dp
    for w in witnesses:
        n = w.get('notes') or {}
        if 'shape' in w.get('outputs', {}) and 'T' in n and 'W' in n:
            T, N, W = int(n['T']), int(n['N']), int(n['W'])
            sig, obs = _check_stack(T, N, W, seed=checked, first=n.get('first'), order=n.get('order', 'C'))
            out = dp.stack_training_data(_payload(0, (T, N)), W)
            checked += 1
            if sig is None and list(out.shape) == [int(x) for x in w['outputs']['shape']]:
                agree += 1
            else:
                disagree.append({'notes': n, 'sig': sig, 'obs': obs})
        else:
            skipped += 1
    return {'checked': checked, 'agree': agree, 'skipped': skipped, 'disagree': disagree[:5]}
