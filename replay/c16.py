"""C16 replay: real BIC vs. recomputation from the definition."""
import math

import numpy as np

from .util import frac, flt, close
from .logdet_sites import replay_site


def _sym(inp, name, n):
    M = np.zeros((n, n))
    for i in range(n):
        for j in range(i, n):
            M[i, j] = M[j, i] = flt(inp.get('%s_%d_%d' % (name, i, j), 0))
    return M


def _setup(w):
    from fast_ticc.containers import arguments, model_state
    nt = w['notes']
    T, K, n, labels = int(nt['T']), int(nt['K']), int(nt['n']), [int(x) for x in nt['labels']]
    inp = w.get('inputs') or {}
    args = arguments.UserArguments(sparsity_weight=abs(flt(inp.get('lam', 0.1))), iteration_limit=1,
                                   label_switching_cost=abs(flt(inp.get('beta', 1.0))),
                                   min_cluster_size=1, min_meaningful_covariance=abs(flt(inp.get('eps', 0))), num_clusters=K,
                                   num_processors=1, window_size=1, biased_covariance=False)
    st = model_state.ModelState.empty_model(args, np.zeros((T, n)))
    st.point_labels = list(labels)
    for k, cl in enumerate(st.clusters):
        cl.train_inverse = _sym(inp, 'st_Th%d' % k, n)
        cl.empirical_covariance = _sym(inp, 'st_S%d' % k, n)
    return T, K, n, labels, st


def replay(w):
    if w.get('obligation') == 'bic_logdet_argument_in_double_range':
        return replay_site(w)
    if (w.get('notes') or {}).get('kind') == 'end_to_end':
        return _end_to_end(w)
    from fast_ticc import cluster_metrics
    T, K, n, labels, st = _setup(w)
    with np.errstate(all='ignore'):
        try:
            real = float(cluster_metrics.bayesian_information_criterion(st))
        except Exception as exc:
            return {'reproduced': True, 'signature': 'bic-raises', 'observed': {'raised': repr(exc)}}
    cnt = [int(np.sum(np.abs(cl.train_inverse) > 2e-5)) for cl in st.clusters]
    dets = [float(np.linalg.det(cl.train_inverse)) for cl in st.clusters]
    if any(d <= 0 for d in dets):
        # ln det undefined for this witness: not a verdict about the formula
        return {'reproduced': False, 'signature': None, 'observed': {'nonpositive_det': dets, 'real': real}}
    runs, last = [], None
    for l in labels:
        if l != last:
            runs.append(l)
            last = l
    want = sum(cnt[k] for k in runs) * math.log(T) - 2 * sum(
        math.log(dets[k]) - float(np.trace(st.clusters[k].train_inverse @ st.clusters[k].empirical_covariance))
        for k in range(K))
    obs = {'real': real, 'definition': want, 'labels': labels}
    bad = not close(real, want, rel=1e-9, ab=1e-9)
    return {'reproduced': bad, 'signature': 'bic-differs-from-definition' if bad else None, 'observed': obs}


def _end_to_end(w):
    """Real main loop stopped by the iteration limit; BIC recomputed from the covariances the last
    fit used (captured at the optimiser phase) and the final labels."""
    import fast_ticc
    from fast_ticc import graphical_lasso as gl
    lim = int(w['notes'].get('limit', 1))
    one_variable = bool(w['notes'].get('real_stats'))      # one sensor, window 1: np.cov hands back 0-d arrays
    real_opt = gl.optimize_markov_random_fields
    res = None
    for seed in range(12):
        # overlapping regimes in short alternating segments: with the run cut off by the iteration
        # limit the last relabelling differs from the labelling the last fit was made for
        rng = np.random.default_rng(seed)
        means = np.repeat(np.array([0.0, 1.5, 3.0] * 4), 10)
        data = rng.standard_normal((120, 1 if one_variable else 2)) + means[:, None]
        fits = []

        def spy(model, d, pool):
            out = real_opt(model, d, pool)
            fits.append(out)
            return out
        gl.optimize_markov_random_fields = spy
        try:
            np.random.seed(seed)
            res = fast_ticc.ticc_labels(data, window_size=1 if one_variable else 2, num_clusters=3, iteration_limit=lim, min_cluster_size=3,
                                        sparsity_weight=0.1, label_switching_cost=6.0)
        except Exception:
            res = None
        finally:
            gl.optimize_markov_random_fields = real_opt
        if res is None or not fits:
            continue
        final = [int(x) for x in res.point_labels if int(x) >= 0]
        if final != [int(x) for x in fits[-1].point_labels] or one_variable:
            break
    if res is None or not fits:
        return {'reproduced': False, 'signature': None, 'observed': {'no_completed_run': True}}
    fitted = fits[-1]
    labels = [int(x) for x in res.point_labels if int(x) >= 0]
    runs, last = [], None
    for l in labels:
        if l != last:
            runs.append(l)
            last = l
    cnt = [int(np.sum(np.abs(cl.train_inverse) > 2e-5)) for cl in fitted.clusters]
    want = sum(cnt[k] for k in runs) * math.log(len(labels)) - 2 * sum(
        np.linalg.slogdet(cl.train_inverse)[1] - float(np.trace(cl.train_inverse @ np.atleast_2d(cl.empirical_covariance)))
        for cl in fitted.clusters)
    got = float(res.bayesian_information_criterion)
    bad = not close(got, want, rel=1e-9, ab=1e-9)
    return {'reproduced': bad, 'signature': 'reported-bic-not-from-fitted-model' if bad else None,
            'observed': {'reported': got, 'definition_with_fitted_model': want, 'limit': lim}}


def validate(witnesses):
    checked = agree = skipped = 0
    disagree = []
    for w in witnesses:
        if 'labels' not in w.get('notes', {}):
            skipped += 1
            continue
        r = replay(w)
        if 'nonpositive_det' in r['observed']:
            skipped += 1
            continue
        checked += 1
        if not r['reproduced']:
            agree += 1
        else:
            disagree.append({'inputs': w['inputs'], 'obs': r['observed']})
    return {'checked': checked, 'agree': agree, 'skipped': skipped, 'disagree': disagree[:5]}
