"""C13 replay: state operations on the real build."""
import copy
import random

import numpy as np


def _mk(K, P, labels, arrays):
    from fast_ticc.containers import arguments, model_state
    n = 1
    rng = np.random.default_rng(5)
    data = rng.standard_normal((P, n))
    lam = np.full((n, n), 0.1) if arrays else 0.1
    beta = np.full((P,), 1.0) if arrays else 1.0
    args = arguments.UserArguments(sparsity_weight=lam, iteration_limit=2, label_switching_cost=beta,
                                   min_cluster_size=1, min_meaningful_covariance=0, num_clusters=K,
                                   num_processors=1, window_size=1, biased_covariance=True)
    st = model_state.ModelState.empty_model(args, data)
    st.point_labels = list(labels)
    for k, cl in enumerate(st.clusters):
        cl.stacked_data_mean = rng.standard_normal(n)
        cl.empirical_covariance = np.eye(n) * (k + 1.0)
        cl.train_inverse = np.eye(n) / (k + 1.0)
        cl.computed_covariance = np.eye(n) * (k + 1.0)
    st.label_assignment_cost = 1.5
    st.point_log_likelihood = rng.standard_normal((P, K))
    return st, data


def _inv(st, K):
    labs = [int(x) for x in st.point_labels]
    return len(st.clusters) == K and all(
        list(st.clusters[k].member_points) == [i for i, l in enumerate(labs) if l == k] for k in range(K))


def _snap(st):
    return ([int(x) for x in st.point_labels], [list(c.member_points) for c in st.clusters],
            [[None if getattr(c, f) is None else np.array(getattr(c, f), copy=True)
              for f in ('stacked_data_mean', 'empirical_covariance', 'train_inverse', 'computed_covariance')]
             for c in st.clusters], list(st.clusters))


def _same(st, sn):
    if [int(x) for x in st.point_labels] != sn[0] or [list(c.member_points) for c in st.clusters] != sn[1]:
        return False
    if any(a is not b for a, b in zip(st.clusters, sn[3])):
        return False
    for c, fs in zip(st.clusters, sn[2]):
        for f, old in zip(('stacked_data_mean', 'empirical_covariance', 'train_inverse', 'computed_covariance'), fs):
            cur = getattr(c, f)
            if (cur is None) != (old is None) or (cur is not None and not np.array_equal(cur, old)):
                return False
    return True


class ReplayInternalError(BaseException):
    pass


def _apply(op, st, data, K, P, after):
    from fast_ticc import cluster_maintenance as cm, graphical_lasso as gl, cluster_label_assignment as cla
    if op == 'assign':
        new = st.shallow_copy()
        new.clusters = [x.deep_copy() for x in new.clusters]
        new.point_labels = list(after) if after else [(l + 1) % K for l in st.point_labels]
        return new
    if op == 'assign_inplace':
        st.point_labels = list(after) if after else [(l + 1) % K for l in st.point_labels]
        return st
    if op == 'shallow_copy':
        return st.shallow_copy()
    if op == 'deep_copy':
        return st.deep_copy()
    if op == 'repopulate':
        random.seed(1)
        return cm.repopulate_empty_clusters(st)
    if op == 'statistics':
        return cm.update_all_cluster_statistics(st, data)
    if op == 'optimise':
        class Pool:
            def apply_async(self, f, a=(), kw=None):
                class T:
                    def get(s):
                        return f(*a, **(kw or {}))
                return T()
        return gl.optimize_markov_random_fields(st, data, Pool())
    if op == 'relabel':
        return cla.predict_cluster_labels(st, data)
    raise ReplayInternalError(op)


def replay(w):
    nt = w['notes']
    K, P, labels = int(nt['K']), int(nt['P']), [int(x) for x in nt['labels']]
    op = nt['op']
    ob = w['obligation']
    sig, obs = None, {}
    try:
        if ob.startswith('deep_copy'):
            arrays = nt.get('form') == 'arrays'
            st, data = _mk(K, P, labels, arrays)
            cp = st.deep_copy()
            shared = []
            pairs = [('arguments.sparsity_weight', st.arguments.sparsity_weight, cp.arguments.sparsity_weight),
                     ('arguments.label_switching_cost', st.arguments.label_switching_cost, cp.arguments.label_switching_cost),
                     ('stacked_training_data', st.stacked_training_data, cp.stacked_training_data),
                     ('point_log_likelihood', st.point_log_likelihood, cp.point_log_likelihood)]
            for k in range(K):
                for f in ('stacked_data_mean', 'empirical_covariance', 'train_inverse', 'computed_covariance'):
                    pairs.append(('clusters[%d].%s' % (k, f), getattr(st.clusters[k], f), getattr(cp.clusters[k], f)))
                if st.clusters[k].member_points is cp.clusters[k].member_points or st.clusters[k] is cp.clusters[k]:
                    shared.append('clusters[%d]' % k)
            for name, a, b in pairs:
                if isinstance(a, np.ndarray) and isinstance(b, np.ndarray) and np.shares_memory(a, b):
                    shared.append(name)
            if st.point_labels is cp.point_labels or st.arguments is cp.arguments or st.clusters is cp.clusters:
                shared.append('container')
            obs['shared'] = shared
            a0, a1 = st.arguments, cp.arguments
            same = all(np.array_equal(np.asarray(getattr(a0, f)), np.asarray(getattr(a1, f))) for f in
                       ('sparsity_weight', 'label_switching_cost', 'min_meaningful_covariance', 'iteration_limit',
                        'min_cluster_size', 'num_clusters', 'window_size', 'biased_covariance'))
            if not same and not shared:
                sig = 'deep-copy-differs-from-source'
                obs['arguments_differ'] = True
            if shared:
                only_args = all(s.startswith('arguments.') for s in shared)
                sig = 'deep-copy-shares-array-valued-hyperparameters' if only_args else 'deep-copy-shares-state'
        elif ob == 'setter_rederives_membership':
            st, data = _mk(K, P, labels, False)
            st.point_labels = list(labels)
            ok = _inv(st, K)
            st.point_labels = [int(x) for x in nt['labels_after']]
            if not ok or not _inv(st, K):
                sig = 'setter-leaves-stale-membership'
                obs = {'labels': [int(x) for x in st.point_labels], 'members': [list(c.member_points) for c in st.clusters]}
        else:
            ops = op if isinstance(op, list) else [op]
            st, data = _mk(K, P, labels, False)
            history = [(st, _snap(st))]
            cur = st
            for o in ops:
                prev = cur
                if o == 'relabel' and len(ops) > 1:
                    # make the relabel step reproduce the labelling it was given (the case that matters
                    # for aliasing) by scripting the kernel
                    from fast_ticc import cluster_label_assignment as cla
                    real_k = cla.assign_point_cluster_labels
                    keep = [int(x) for x in prev.point_labels]
                    cla.assign_point_cluster_labels = lambda label_assignment_cost, label_switching_cost: (list(keep), 0.0)
                    try:
                        cur = _apply(o, cur, data, K, P, None)
                    finally:
                        cla.assign_point_cluster_labels = real_k
                else:
                    cur = _apply(o, cur, data, K, P, nt.get('labels_after') if len(ops) == 1 else None)
                if not _inv(cur, K):
                    sig = 'invariant-broken-after-' + o
                    obs = {'labels': [int(x) for x in cur.point_labels],
                           'members': [list(c.member_points) for c in cur.clusters]}
                    break
                for (old, sn) in history:
                    if old is cur and o == 'assign_inplace':
                        continue
                    if not _same(old, sn) or not _inv(old, K):
                        sig = 'earlier-state-altered-by-' + o
                        obs = {'labels': [int(x) for x in old.point_labels],
                               'members': [list(c.member_points) for c in old.clusters]}
                history = [(h, s2) for (h, s2) in history if h is not cur] + [(cur, _snap(cur))]
                if sig:
                    break
    except Exception as exc:
        sig, obs = 'operation-raises', {'raised': repr(exc)}
    return {'reproduced': sig is not None, 'signature': sig, 'observed': obs}


def validate(witnesses):
    checked = agree = skipped = 0
    disagree = []
    for w in witnesses:
        nt, out = w.get('notes') or {}, w.get('outputs') or {}
        op = nt.get('op')
        if 'members' not in out or op not in ('assign', 'assign_inplace', 'shallow_copy', 'deep_copy', 'statistics', 'optimise'):
            skipped += 1
            continue
        K, P, labels = int(nt['K']), int(nt['P']), [int(x) for x in nt['labels']]
        st, data = _mk(K, P, labels, False)
        try:
            new = _apply(op, st, data, K, P, nt.get('labels_after'))
        except Exception as exc:
            disagree.append({'notes': nt, 'raised': repr(exc)})
            checked += 1
            continue
        checked += 1
        got = [list(c.member_points) for c in new.clusters]
        if got == [[int(i) for i in m] for m in out['members']]:
            agree += 1
        else:
            disagree.append({'notes': nt, 'real': got, 'engine': out['members']})
    return {'checked': checked, 'agree': agree, 'skipped': skipped, 'disagree': disagree[:5]}
