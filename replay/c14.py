"""C14 replay: real front end, real worker processes; completion order permuted by a delaying
wrapper substituted for the public optimiser entry point; complete results compared bitwise."""
import os
import random
import time

import numpy as np

_DELAYS = {}


def _delaying(cov, *a, **k):
    from fast_ticc.admm import front_end as real
    tr = float(np.trace(np.atleast_2d(np.asarray(cov))))
    mode = _DELAYS.get('mode')
    if mode == 'small_last':
        time.sleep(0.8 / (1.0 + tr))
    elif mode == 'large_last':
        time.sleep(min(0.8, 0.02 * tr))
    else:
        time.sleep(_DELAYS.get('default', 0.0))
    return real.admm_optimize_theta(cov, *a, **k)


def _data(K=3, per=30, seed=5):
    rng = np.random.default_rng(seed)
    return np.concatenate([rng.standard_normal((per, 2)) * (1 + k) + 9.0 * k for k in range(K)])


def _run(K, env, nproc, delays=None):
    import fast_ticc
    import fast_ticc.admm as admm
    if env:
        os.environ['CUPCAKE_ENABLE_MULTIPROCESSING'] = env
    else:
        os.environ.pop('CUPCAKE_ENABLE_MULTIPROCESSING', None)
    np.random.seed(1)
    random.seed(1)
    real = admm.admm_optimize_theta
    if delays is not None:
        _DELAYS.clear()
        _DELAYS.update(delays)
        admm.admm_optimize_theta = _delaying
    try:
        return fast_ticc.ticc_labels(_data(K), window_size=2, num_clusters=K, iteration_limit=3, min_cluster_size=3,
                                     sparsity_weight=0.1, label_switching_cost=5.0, num_processors=nproc)
    finally:
        admm.admm_optimize_theta = real


def _same(a, b):
    if list(a.point_labels) != list(b.point_labels):
        return 'labels differ'
    for x, y in zip(a.markov_random_fields, b.markov_random_fields):
        if not np.array_equal(np.asarray(x).view(np.uint64), np.asarray(y).view(np.uint64)):
            return 'MRFs differ bitwise'
    for f in ('label_assignment_cost', 'overall_log_likelihood', 'bayesian_information_criterion',
              'calinski_harabasz_index'):
        if np.float64(getattr(a, f)).view(np.uint64) != np.float64(getattr(b, f)).view(np.uint64):
            return f + ' differs bitwise'
    return None


_SHAPES = [(1, 2), (2, 1), (2, 2)]


def _z_for(shapes):
    """Z-update results for a sequence of shapes computed one after the other in THIS process."""
    from fast_ticc.admm import solver
    from fast_ticc.containers import arguments
    out = []
    for (N, W) in shapes:
        n = N * W
        L = n * (n + 1) // 2
        rng = np.random.default_rng(100 * N + W)
        x, u = rng.standard_normal(L), rng.standard_normal(L)
        a = arguments.ADMMArguments(window_size=W, num_data_series=N, rho=1.3, rho_update=None, sparsity_weight=0.2,
                                    absolute_tolerance=1e-6, relative_tolerance=1e-6, max_iterations=1, verbose=False)
        try:
            out.append(np.asarray(solver.admm_update_z(a, u, x), float).tolist())
        except Exception as exc:
            out.append('raised ' + repr(exc))
    return out


def _cache_replay(nt):
    import json
    import subprocess
    import sys
    order = [int(i) for i in nt.get('order', [2, 0, 1])]
    shapes = [_SHAPES[i] for i in order]
    here = _z_for(shapes)
    fresh = []
    for sh in shapes:
        p = subprocess.run([sys.executable, '-c',
                            'import json; from replay.c14 import _z_for; print(json.dumps(_z_for([%r])))' % (sh,)],
                           capture_output=True, text=True, timeout=300)
        fresh.append(json.loads(p.stdout.strip().splitlines()[-1])[0])
    diff = [i for i, (a, b) in enumerate(zip(here, fresh)) if a != b]
    return {'reproduced': bool(diff), 'signature': 'result-depends-on-earlier-calls' if diff else None,
            'observed': {'order': shapes, 'differs_at': diff, 'in_sequence': [h if isinstance(h, str) else h[:3] for h in here]}}


def _repop_replay():
    """More clusters than regimes and a stiff switching cost: repopulation events in every run."""
    import fast_ticc

    def run(shape_other=False):
        np.random.seed(4)
        random.seed(4)
        rng = np.random.default_rng(9)
        d = np.concatenate([rng.standard_normal((60, 2 if shape_other else 3)) + 7.0 * k for k in range(3)])
        return fast_ticc.ticc_labels(d, window_size=2, num_clusters=5, iteration_limit=4, min_cluster_size=6,
                                     sparsity_weight=0.1, label_switching_cost=150.0)
    os.environ.pop('CUPCAKE_ENABLE_MULTIPROCESSING', None)
    try:
        a = run()
        run(True)
        b = run()
    except Exception as exc:
        return {'reproduced': False, 'signature': None, 'observed': {'run_failed': repr(exc)}}
    d = _same(a, b)
    return {'reproduced': d is not None, 'signature': 'repeated-run-differs' if d else None,
            'observed': {'difference': d}}


def _digest(res):
    import hashlib
    h = hashlib.sha256()
    h.update(repr([int(x) for x in res.point_labels]).encode())
    for m in res.markov_random_fields:
        h.update(np.ascontiguousarray(np.asarray(m, float)).tobytes())
    for f in ('label_assignment_cost', 'overall_log_likelihood', 'bayesian_information_criterion',
              'calinski_harabasz_index'):
        h.update(np.float64(getattr(res, f)).tobytes())
    return h.hexdigest()


def _fit_b(eps_b=0.0):
    import fast_ticc
    os.environ.pop('CUPCAKE_ENABLE_MULTIPROCESSING', None)
    np.random.seed(1)
    random.seed(1)
    return fast_ticc.ticc_labels(_data(2, per=25), window_size=2, num_clusters=2, iteration_limit=3, min_cluster_size=3,
                                 sparsity_weight=0.1, label_switching_cost=5.0, min_meaningful_covariance=eps_b)


def _hyper_history_replay(w):
    """In this process: a fit with the witness's covariance floor on another shape, then fit B; in a fresh
    process: fit B alone.  Bit-for-bit comparison of the complete results."""
    import subprocess
    import sys
    import fast_ticc
    inp = w.get('inputs') or {}
    from .util import flt
    # the witness's floors, capped at a value the data can bear (a floor of 1 would zero whole matrices)
    eps = min(abs(flt(inp.get('eps_a', 1e-9))), 0.05)
    eps_b = min(abs(flt(inp.get('eps_b', 0.0))), 0.05)
    np.random.seed(3)
    random.seed(3)
    rng = np.random.default_rng(2)
    other = np.concatenate([rng.standard_normal((30, 3)) + 6.0 * k for k in range(2)])
    try:
        fast_ticc.ticc_labels(other, window_size=3, num_clusters=2, iteration_limit=2, min_cluster_size=3,
                              sparsity_weight=0.2, label_switching_cost=3.0, min_meaningful_covariance=eps)
    except Exception:
        pass
    here = _digest(_fit_b(eps_b))
    p = subprocess.run([sys.executable, '-c', 'from replay.c14 import _fit_b, _digest; print("DIGEST", _digest(_fit_b(%r)))' % (eps_b,)],
                       capture_output=True, text=True, timeout=600)
    fresh = [l.split()[1] for l in p.stdout.splitlines() if l.startswith('DIGEST')]
    if not fresh:
        return {'reproduced': False, 'signature': None, 'observed': {'fresh_run_failed': p.stderr[-300:]}}
    bad = here != fresh[-1]
    return {'reproduced': bad, 'signature': 'result-depends-on-earlier-calls' if bad else None,
            'observed': {'earlier_call_floor': eps, 'floor_of_the_call_under_test': eps_b, 'after_history': here[:16], 'fresh_process': fresh[-1][:16]}}


def replay(w):
    nt = w.get('notes') or {}
    if nt.get('kind') == 'hyper_history':
        return _hyper_history_replay(w)
    if nt.get('kind') == 'repopulating':
        return _repop_replay()
    if nt.get('kind') == 'cache':
        return _cache_replay(nt)
    K = int(nt.get('K', 3))
    if nt.get('kind') == 'pool_size':
        # the witness's own pool size and environment switch against the single-process reference
        try:
            ref = _run(K, None, 1)
            d = _same(ref, _run(K, nt.get('env'), int(nt.get('nproc', 2))))
        except Exception as exc:
            return {'reproduced': True, 'signature': 'run-raises', 'observed': {'raised': repr(exc)}}
        return {'reproduced': d is not None, 'signature': 'result-depends-on-num-processors' if d else None,
                'observed': {'difference': d, 'K': K, 'num_processors': nt.get('nproc'), 'env': nt.get('env')}}
    try:
        ref = _run(K, None, 1)
        # slow down tasks so that later-submitted clusters finish first
        slow = _run(K, '1', max(K, 2), delays={'mode': 'small_last'})
        d1 = _same(ref, slow)
        rev = _run(K, '1', max(K, 2), delays={'mode': 'large_last'})
        d2 = _same(ref, rev)
        again = _run(K, None, 1)
        d3 = _same(ref, again)
    except Exception as exc:
        return {'reproduced': True, 'signature': 'run-raises', 'observed': {'raised': repr(exc)}}
    diffs = [d for d in (d1, d2, d3) if d]
    return {'reproduced': bool(diffs), 'signature': 'result-depends-on-scheduling' if diffs else None,
            'observed': {'differences': diffs}}


def validate(witnesses):
    """The engine found the results independent of pool size / environment / call history on these
    paths: the real build (real worker processes, real caches) must agree bit for bit."""
    checked = agree = skipped = 0
    disagree = []
    ref = {}
    budget = {'pool_size': 5, 'schedule': 2, 'cache': 3, 'hyper_history': 2}
    for w in witnesses:
        nt = w.get('notes') or {}
        kind = nt.get('kind')
        if budget.get(kind, 0) <= 0:
            skipped += 1
            continue
        budget[kind] -= 1
        try:
            if kind == 'cache':
                r = _cache_replay(nt)
                bad = r['observed'] if r['reproduced'] else None
            elif kind == 'hyper_history':
                r = _hyper_history_replay(w)
                bad = r['observed'] if r['reproduced'] else None
            else:
                K = int(nt.get('K', 2))
                if K not in ref:
                    ref[K] = _run(K, None, 1)
                env, nproc = nt.get('env'), int(nt.get('nproc', max(K, 2)))
                if kind == 'schedule':
                    env, nproc = '1', max(K, 2)
                bad = _same(ref[K], _run(K, env, nproc))
        except Exception as exc:
            bad = 'raised ' + repr(exc)
        checked += 1
        if bad:
            disagree.append({'notes': nt, 'difference': bad})
        else:
            agree += 1
    return {'checked': checked, 'agree': agree, 'skipped': skipped, 'disagree': disagree[:5]}
