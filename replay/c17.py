"""C17 replay: real Calinski-Harabasz index vs. the definition (per-column
centroid) and vs. the known deviation model (scalar mean of all entries)."""
from fractions import Fraction

import numpy as np

from .util import frac, flt, close


def _setup(w):
    from fast_ticc.containers import arguments, model_state
    from fast_ticc import cluster_maintenance as cm
    nt = w['notes']
    T, K, n, labels = int(nt['T']), int(nt['K']), int(nt['n']), [int(x) for x in nt['labels']]
    inp = w.get('inputs') or {}
    X = [[frac(inp.get('x_%d_%d' % (i, j), 0)) for j in range(n)] for i in range(T)]
    data = np.array([[int(v) for v in row] for row in X], dtype=np.int64) if nt.get('data_dtype') == 'int64' \
        else np.array([[float(v) for v in row] for row in X])
    args = arguments.UserArguments(sparsity_weight=0.1, iteration_limit=1, label_switching_cost=1.0,
                                   min_cluster_size=1, min_meaningful_covariance=0, num_clusters=K,
                                   num_processors=1, window_size=1, biased_covariance=True)
    st = model_state.ModelState.empty_model(args, data)
    st.point_labels = list(labels)
    st = cm.update_all_cluster_statistics(st, data)
    return T, K, n, labels, X, data, st


def _definition(X, labels, T, K, n, centre):
    B = Fraction(0)
    Wd = Fraction(0)
    for k in range(K):
        mem = [i for i, l in enumerate(labels) if l == k]
        mu = [sum(X[i][j] for i in mem) / len(mem) for j in range(n)]
        B += len(mem) * sum((mu[j] - centre[j]) ** 2 for j in range(n))
        Wd += sum((X[i][j] - mu[j]) ** 2 for i in mem for j in range(n))
    if Wd == 0:
        return None
    return (B / (K - 1)) / (Wd / (T - K))


def _classify(w):
    from fast_ticc import cluster_metrics
    T, K, n, labels, X, data, st = _setup(w)
    real = float(cluster_metrics.calinski_harabasz_index(data, st))
    centroid = [sum(X[i][j] for i in range(T)) / T for j in range(n)]
    scalar = sum(X[i][j] for i in range(T) for j in range(n)) / (T * n)
    d = _definition(X, labels, T, K, n, centroid)
    m = _definition(X, labels, T, K, n, [scalar] * n)
    return real, d, m


def replay(w):
    real, d, m = _classify(w)
    obs = {'real': real, 'definition': None if d is None else float(d),
           'scalar_centre_model': None if m is None else float(m)}
    if d is None:
        return {'reproduced': False, 'signature': None, 'observed': obs}
    if close(real, d, rel=1e-9, ab=1e-12):
        return {'reproduced': False, 'signature': None, 'observed': obs}
    sig = 'ch-global-centre-is-scalar-mean' if close(real, m, rel=1e-9, ab=1e-12) else 'ch-differs-from-definition'
    return {'reproduced': True, 'signature': sig, 'observed': obs}


def validate(witnesses):
    from fast_ticc import cluster_metrics
    checked = agree = skipped = 0
    disagree = []
    for w in witnesses:
        out = w.get('outputs') or {}
        if 'ch' not in out:
            skipped += 1
            continue
        T, K, n, labels, X, data, st = _setup(w)
        real = float(cluster_metrics.calinski_harabasz_index(data, st))
        checked += 1
        if close(real, frac(out['ch']), rel=1e-7, ab=1e-9):
            agree += 1
        else:
            disagree.append({'inputs': w['inputs'], 'expected': float(frac(out['ch'])), 'real': real})
    return {'checked': checked, 'agree': agree, 'skipped': skipped, 'disagree': disagree[:5]}
