"""C04 replay: the real front ends on random data of the witness sizes (tiny
iteration limit); only the structure of the result is compared."""
import numpy as np


def _run(n):
    import fast_ticc
    W, N, K, lens, lim = int(n['W']), int(n['N']), int(n['K']), [int(x) for x in n['lens']], int(n.get('limit', 1))
    rng = np.random.default_rng(7)
    # enough rows per series are not guaranteed for a real fit: pad the *data* with extra
    # series only through the sizes the witness names; use well-separated blobs so the GMM works
    series = [rng.standard_normal((L, N)) + 5.0 * (np.arange(L) % K)[:, None] for L in lens]
    kw = dict(window_size=W, num_clusters=K, iteration_limit=lim, min_cluster_size=1, sparsity_weight=0.1,
              label_switching_cost=1.0)
    def wrap():
        kind = n.get('container', 'list')
        return list(series) if kind == 'list' else tuple(series) if kind == 'tuple' else (a for a in series)
    fe = (lambda **k: fast_ticc.ticc_joint_labels(wrap(), **k)) if n.get('joint') else \
         (lambda **k: fast_ticc.ticc_labels(series[0], **k))
    if n.get('W_first'):
        # call history: an earlier call on the very same arrays with another window size
        try:
            fe(**dict(kw, window_size=int(n['W_first'])))
        except Exception:
            pass
        try:
            res = fe(**kw)
        except Exception as exc:
            m = dict(n)
            m.pop('W_first')
            _run(m)                        # raises too if the sizes cannot be fitted at all
            raise EarlierCallMatters(repr(exc))
    else:
        res = fe(**kw)
    lists = res.point_labels if n.get('joint') else [res.point_labels]
    return res, lists, W, N, K, lens


class EarlierCallMatters(Exception):
    pass


def _judge(res, lists, W, N, K, lens):
    front = (W - 1) // 2
    back = W - 1 - front
    if not isinstance(lists, list) or not all(isinstance(x, (list, np.ndarray)) for x in lists):
        return 'point-labels-is-not-a-list-of-label-lists'
    if len(lists) != len(lens):
        return 'wrong-number-of-label-lists'
    for lab, L in zip(lists, lens):
        lab = [int(x) for x in lab]
        if len(lab) != L:
            return 'label-list-length-differs-from-series'
        if any(x != -1 for x in lab[:front]) or any(x != -1 for x in lab[L - back:] if back):
            return 'margin-not-minus-one'
        if any(not 0 <= x < K for x in lab[front:L - back]):
            return 'interior-label-out-of-range'
    if len(res.markov_random_fields) != K or any(np.asarray(m).shape != (N * W, N * W) for m in res.markov_random_fields):
        return 'mrf-structure-wrong'
    if res.num_clusters != K or res.window_size != W:
        return 'K-or-W-not-echoed'
    return None


def _scripted(n):
    """The witness names the labelling of every round (positional pattern): run the real front end
    with the fitting phases scripted and exactly those labellings, so that e.g. a cluster left
    empty by the final labelling is empty on the real build too."""
    import fast_ticc
    from .scripted import Scripted
    W, N, K, lens, lim = int(n['W']), int(n['N']), int(n['K']), [int(x) for x in n['lens']], int(n.get('limit', 1))
    rng = np.random.default_rng(7)
    series = [rng.standard_normal((L, N)) for L in lens]
    kw = dict(window_size=W, num_clusters=K, iteration_limit=lim, min_cluster_size=1, sparsity_weight=0.1,
              label_switching_cost=1.0)
    rounds = [[int(x) for x in r] for r in n['round_labels']]
    T = sum(L - W + 1 for L in lens)
    def wrap():
        kind = n.get('container', 'list')
        return list(series) if kind == 'list' else tuple(series) if kind == 'tuple' else (a for a in series)
    fe = (lambda **k: fast_ticc.ticc_joint_labels(wrap(), **k)) if n.get('joint') else \
         (lambda **k: fast_ticc.ticc_labels(series[0], **k))
    if n.get('W_first'):
        W1 = int(n['W_first'])
        with Scripted({}, K, N * W1, initial=[i % K for i in range(sum(L - W1 + 1 for L in lens))], relabel=None,
                      scripted=('statistics', 'optimise', 'bic', 'ch', 'initial', 'repopulate')) as sc1:
            sc1.relabel = [[i % K for i in range(sum(L - W1 + 1 for L in lens))]]
            try:
                fe(**dict(kw, window_size=W1))
            except Exception:
                pass
    with Scripted({}, K, N * W, initial=[i % K for i in range(T)], relabel=rounds,
                  scripted=('statistics', 'optimise', 'bic', 'ch', 'initial', 'repopulate')):
        res = fe(**kw)
    lists = res.point_labels if n.get('joint') else [res.point_labels]
    return res, lists, W, N, K, lens


def replay(w):
    n = w['notes']
    if n.get('round_labels'):
        try:
            r = _scripted(n)
        except Exception as exc:
            return {'reproduced': True, 'signature': 'front-end-raises-on-a-completed-run',
                    'observed': {'raised': repr(exc), 'lens': n['lens'], 'W': n['W'], 'W_first': n.get('W_first')}}
        sig = _judge(*r)
        return {'reproduced': sig is not None, 'signature': sig,
                'observed': {'lens': r[5], 'got_lengths': [len(x) if hasattr(x, '__len__') else repr(x) for x in r[1]], 'n_mrf': len(r[0].markov_random_fields),
                             'num_clusters': int(r[0].num_clusters), 'final_labels': n['round_labels'][-1]}}
    # small sizes cannot always be fitted for real (a cluster may come out empty); grow every
    # series by the same amount until the run completes: margins and lengths scale with it
    last = None
    for extra in (0, 6, 12, 24, 48):
        m = dict(n)
        m['lens'] = [int(x) + extra for x in n['lens']]
        try:
            r = _run(m)
        except EarlierCallMatters as exc:
            return {'reproduced': True, 'signature': 'call-fails-only-after-an-earlier-call-on-the-same-arrays',
                    'observed': {'lens': m['lens'], 'raised': str(exc)}}
        except Exception as exc:       # the run did not complete on this data: not a structure verdict
            last = repr(exc)
            continue
        sig = _judge(*r)
        return {'reproduced': sig is not None, 'signature': sig,
                'observed': {'lens': m['lens'], 'got_lengths': [len(x) if hasattr(x, '__len__') else repr(x) for x in r[1]],
                             'heads': [[int(v) for v in x[:int(n['W'])]] if hasattr(x, '__len__') else repr(x) for x in r[1]]}}
    return {'reproduced': False, 'signature': None, 'observed': {'no_completed_run': last}}


def validate(witnesses):
    checked = agree = skipped = 0
    disagree = []
    for w in witnesses[:40]:
        n = w['notes']
        out = w.get('outputs') or {}
        done = False
        for extra in (6, 18, 40):
            m = dict(n)
            m['lens'] = [int(x) + extra for x in n['lens']]
            try:
                r = _run(m)
            except Exception:
                continue
            done = True
            checked += 1
            if _judge(*r) is None and [len(x) - extra for x in r[1]] == [int(x) for x in out.get('lengths', [])]:
                agree += 1
            else:
                disagree.append({'notes': m, 'sig': _judge(*r)})
            break
        if not done:
            skipped += 1
    return {'checked': checked, 'agree': agree, 'skipped': skipped, 'disagree': disagree[:5]}
