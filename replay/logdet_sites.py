"""Real-build replay of the log-determinant call sites on Theta = t * I_n."""
import math

import numpy as np

from .util import flt


def run_site(site, n, t):
    from fast_ticc.containers import arguments, model_state
    from fast_ticc import cluster_metrics, likelihood, graphical_lasso, matrix_compression
    args = arguments.UserArguments(sparsity_weight=0.1, iteration_limit=1, label_switching_cost=1.0,
                                   min_cluster_size=1, min_meaningful_covariance=0, num_clusters=1,
                                   num_processors=1, window_size=1, biased_covariance=False)
    Th = np.eye(n) * t
    data = np.zeros((2, n))
    st = model_state.ModelState.empty_model(args, data)
    st.point_labels = [0, 0]
    cl = st.clusters[0]
    cl.train_inverse = Th
    cl.empirical_covariance = np.eye(n)
    cl.stacked_data_mean = np.zeros(n)
    with np.errstate(all='ignore'):
        if site == 'bic':
            return float(cluster_metrics.bayesian_information_criterion(st))
        if site == 'likelihood':
            tab = likelihood.all_points_all_clusters_log_likelihood(st, data)
            return float(np.asarray(tab)[0, 0])
        if site == 'graphical_lasso':
            new = graphical_lasso._update_cluster_covariances(st, cl, matrix_compression.compress_matrix(Th))
            return float(new.log_determinant)
    raise ValueError(site)


def replay_site(w):
    nt = w['notes']
    n, site = int(nt['n']), nt['site']
    t = flt((w.get('inputs') or {}).get('t', 1))
    v = run_site(site, n, t)
    exact_logdet = n * math.log(t)
    obs = {'site': site, 'n': n, 't': t, 'value': v, 'true_logdet': exact_logdet}
    bad = not math.isfinite(v)
    return {'reproduced': bad, 'signature': 'log-of-det-leaves-double-range' if bad else None, 'observed': obs}
