"""C08 replay: the real repopulation step with random.sample and the real
norm of covariances built to have the witness's spreads; the property is re-evaluated concretely."""
import itertools

import numpy as np

from .util import frac, flt


def _run(w):
    from fast_ticc.containers import arguments, model_state
    from fast_ticc import cluster_maintenance as cm
    n = w['notes']
    K, P, labels, m = int(n['K']), int(n['P']), [int(x) for x in n['labels']], int(n['m'])
    inp = w.get('inputs') or {}
    spreads = [flt(inp.get('spread_%d' % k, 0)) for k in range(K)]
    m_given = np.uint8(m) if n.get('m_form') == 'np.uint8' else m
    args = arguments.UserArguments(sparsity_weight=0.1, iteration_limit=3, label_switching_cost=1.0,
                                   min_cluster_size=m_given, min_meaningful_covariance=0, num_clusters=K,
                                   num_processors=1, window_size=1, biased_covariance=False)
    state = model_state.ModelState.empty_model(args, np.zeros((P, 1)))
    state.point_labels = list(labels)
    for k, cl in enumerate(state.clusters):
        # a real 2-D covariance whose Frobenius norm is the witness's spread (diag(s, 0): sqrt(s*s) == s
        # exactly in binary64); when the engine also chose a spectral norm, diag(spec, sqrt(s^2 - spec^2))
        sk = abs(spreads[k])
        if 'spec_%d' % k in inp:
            t = min(abs(flt(inp['spec_%d' % k])), sk)
            cl.computed_covariance = np.diag([t, float(np.sqrt(max(sk * sk - t * t, 0.0)))])
        else:
            cl.computed_covariance = np.diag([sk, 0.0])
    spreads = [float(np.sqrt(np.sum(np.square(cl.computed_covariance)))) for cl in state.clusters]
    calls = {'n': 0}

    class Rnd:
        @staticmethod
        def sample(pop, k):
            i = calls['n']
            calls['n'] += 1
            pop = list(pop)
            idx = [int(inp.get('draw_%d_%d' % (i, j), j)) for j in range(k)]
            if len(set(idx)) != k or any(x >= len(pop) for x in idx):
                idx = list(range(k))
            return [pop[x] for x in idx]
    old = cm.random
    cm.random = Rnd
    pre_members = [list(c.member_points) for c in state.clusters]
    pre_clusters = list(state.clusters)
    try:
        try:
            new = cm.repopulate_empty_clusters(state)
            raised = None
        except Exception as exc:
            new, raised = None, exc
    finally:
        cm.random = old
    return K, P, labels, m, spreads, state, new, raised, pre_members, pre_clusters


def _judge(K, P, labels, m, spreads, state, new, raised, pre_members, pre_clusters):
    size0 = [labels.count(k) for k in range(K)]
    need = [k for k in range(K) if size0[k] < 2]
    elig0 = [k for k in range(K) if size0[k] >= 2 * m]
    if list(state.point_labels) != labels or [list(c.member_points) for c in state.clusters] != pre_members \
            or any(a is not b for a, b in zip(state.clusters, pre_clusters)):
        return 'input-state-modified'
    if raised is not None:
        if not isinstance(raised, RuntimeError):
            return 'unexpected-exception'
        cap = sum(size0[k] // m - 1 for k in elig0)
        if not need or cap >= len(need):
            return 'raises-although-donors-suffice'
        if 'donor' not in str(raised).lower():
            return 'unclear-error-message'
        return None
    if not need:
        return None if new is state else 'new-object-when-nothing-to-do'
    post = [int(x) for x in new.point_labels]
    if len(post) != P or any(not 0 <= x < K for x in post):
        return 'labels-invalid'
    size1 = [post.count(k) for k in range(K)]
    if any(size1[k] != size0[k] + m for k in need):
        return 'recipient-not-refilled-with-m'
    if any(size1[k] < size0[k] and (size0[k] < 2 * m or size1[k] < m) for k in range(K)):
        return 'donor-starved'
    moved = [(i, labels[i], post[i]) for i in range(P) if labels[i] != post[i]]
    if any(size0[a] < 2 * m or size0[b] >= 2 for (_, a, b) in moved):
        return 'move-not-donor-to-recipient'
    donor_of = {}
    for k in need:
        src = sorted({a for (_, a, b) in moved if b == k})
        if len(src) != 1 or len([1 for (_, a, b) in moved if b == k]) != m:
            return 'refill-not-m-from-one-donor'
        donor_of[k] = src[0]
    ok = False
    for order in itertools.permutations(need):
        cur = list(size0)
        good = True
        for k in order:
            d = donor_of[k]
            elig = [j for j in elig0 if cur[j] >= 2 * m]
            if d not in elig or any(spreads[j] > spreads[d] for j in elig):
                good = False
                break
            cur[d] -= m
            cur[k] += m
        if good:
            ok = True
            break
    if not ok:
        return 'donor-not-max-spread'
    for k in range(K):
        if list(new.clusters[k].member_points) != [i for i in range(P) if post[i] == k]:
            return 'membership-not-partition'
    return None


def replay(w):
    r = _run(w)
    sig = _judge(*r)
    new, raised = r[6], r[7]
    obs = {'raised': repr(raised) if raised else None,
           'labels_in': r[2], 'labels_out': [int(x) for x in new.point_labels] if new is not None else None,
           'm': r[3], 'spreads': r[4]}
    return {'reproduced': sig is not None, 'signature': sig, 'observed': obs}


def validate(witnesses):
    checked = agree = skipped = 0
    disagree = []
    for w in witnesses:
        out = w.get('outputs') or {}
        if 'raised' not in out:
            skipped += 1
            continue
        r = _run(w)
        new, raised = r[6], r[7]
        checked += 1
        same = (raised is not None) == bool(out['raised'])
        if same and raised is None and out.get('labels') is not None:
            same = [int(x) for x in new.point_labels] == [int(x) for x in out['labels']]
        if same and _judge(*r) is None:
            agree += 1
        else:
            disagree.append({'notes': w['notes'], 'inputs': w['inputs'], 'expected': out,
                             'real': [repr(raised), [int(x) for x in new.point_labels] if new is not None else None]})
    return {'checked': checked, 'agree': agree, 'skipped': skipped, 'disagree': disagree[:5]}
