"""C09 replay: the real main loop with every phase scripted from the witness
(per-round labellings scripted into the relabel phase), trace compared with
the specification."""
import numpy as np

from .scripted import Scripted


def _expected_rounds(labs, L):
    for j in range(1, L):
        if j < len(labs) and labs[j] == labs[j - 1]:
            return j + 1
    return L


def _run(nt):
    from fast_ticc import main_loop
    from fast_ticc.containers import arguments
    L, P, K = int(nt['limit']), int(nt.get('P', 2)), int(nt.get('K', 2))
    labs = [[int(x) for x in r] for r in nt.get('round_labels', [])]
    if not labs:
        labs = [[0] * P]
    # rounds beyond those the engine saw reuse a labelling that differs from the previous one
    script = list(labs)
    while len(script) < max(L, 1):
        prev = script[-1]
        script.append([(x + 1) % K for x in prev])
    args = arguments.UserArguments(sparsity_weight=0.1, iteration_limit=L, label_switching_cost=1.0,
                                   min_cluster_size=1, min_meaningful_covariance=0, num_clusters=K,
                                   num_processors=1, window_size=1, biased_covariance=False)
    from fast_ticc import likelihood
    old = likelihood.point_log_likelihood
    likelihood.point_log_likelihood = lambda *a, **k: 0.0
    if nt.get('after_failed_run'):
        # call history of the witness: an earlier run in this process dies in the statistics phase of its
        # second round; its first round produced the labelling this run will produce first
        class Died(Exception):
            pass

        def fault(rnd, phase):
            if rnd == 1 and phase == 'statistics':
                raise Died()
        sc0 = Scripted({}, K, 1, initial=nt.get('initial'), relabel=[script[0], script[0]], fault=fault)
        args0 = arguments.UserArguments(sparsity_weight=0.1, iteration_limit=3, label_switching_cost=1.0,
                                        min_cluster_size=1, min_meaningful_covariance=0, num_clusters=K,
                                        num_processors=1, window_size=1, biased_covariance=False)
        try:
            with sc0:
                main_loop.fit_stacked_data(args0, np.zeros((P, 1)))
        except Died:
            pass
    sc = Scripted({}, K, 1, initial=nt.get('initial'), relabel=script)
    sc.scripted.add('point_ll')
    try:
        with sc:
            res = main_loop.fit_stacked_data(args, np.zeros((P, 1)))
    finally:
        likelihood.point_log_likelihood = old
    return res, sc, script, L, P, K


def _with_repopulation():
    """Real main loop with a forced repopulation; the hyper-parameters carried by the state at
    every relabel must be the caller's."""
    import fast_ticc
    from fast_ticc import cluster_label_assignment as cla
    seen = []
    real = cla.predict_cluster_labels
    calls = {'n': 0}

    def spy(model, data):
        seen.append((model.arguments.sparsity_weight, model.arguments.label_switching_cost,
                     model.arguments.min_meaningful_covariance))
        out = real(model, data)
        if calls['n'] == 0:
            out.point_labels = [0] * len(out.point_labels)          # collapse: next round repopulates
        calls['n'] += 1
        return out
    cla.predict_cluster_labels = spy
    rng = np.random.default_rng(2)
    data = np.concatenate([rng.standard_normal((30, 1)) + 6.0 * k for k in range(2)])
    try:
        fast_ticc.ticc_labels(data, window_size=1, num_clusters=2, iteration_limit=3, min_cluster_size=4,
                              sparsity_weight=0.11, label_switching_cost=7.0, min_meaningful_covariance=0.001)
    except Exception as exc:
        return {'reproduced': True, 'signature': 'run-raises', 'observed': {'raised': repr(exc)}}
    finally:
        cla.predict_cluster_labels = real
    bad = [s for s in seen if s != (0.11, 7.0, 0.001)]
    return {'reproduced': bool(bad), 'signature': 'hyperparameters-change-during-run' if bad else None,
            'observed': {'seen_at_relabel': [list(map(float, s)) for s in seen]}}


def replay(w):
    nt = w['notes']
    if nt.get('kind') == 'with_repopulation':
        return _with_repopulation()
    if nt.get('bad'):
        try:
            _run(dict(nt, P=2, K=2, round_labels=[[0, 0]]))
            return {'reproduced': True, 'signature': 'nonpositive-limit-accepted', 'observed': {'limit': nt['limit']}}
        except AssertionError:
            return {'reproduced': False, 'signature': None, 'observed': {}}
    try:
        res, sc, script, L, P, K = _run(nt)
    except Exception as exc:
        return {'reproduced': True, 'signature': 'run-raises', 'observed': {'raised': repr(exc)}}
    rounds = len([t for t in sc.trace if t[0] == 'relabel'])
    want_rounds = _expected_rounds(script, L)
    seq = [t[0] for t in sc.trace]
    want = []
    for r in range(rounds):
        if r > 0:
            want.append('repopulate')
        want += ['statistics', 'optimise', 'relabel']
    obs = {'rounds': rounds, 'expected_rounds': want_rounds, 'phases': seq, 'labels': [int(x) for x in res.point_labels],
           'scripted': script[:rounds + 1]}
    sig = None
    if not 1 <= rounds <= L:
        sig = 'round-count-out-of-bounds'
    elif seq != want:
        sig = 'phase-order-wrong'
    elif rounds != want_rounds:
        sig = 'stops-at-wrong-round'
    elif [int(x) for x in res.point_labels] != script[rounds - 1]:
        sig = 'result-is-not-last-round'
    return {'reproduced': sig is not None, 'signature': sig, 'observed': obs}


def validate(witnesses):
    checked = agree = skipped = 0
    disagree = []
    for w in witnesses:
        nt, out = w['notes'], w.get('outputs') or {}
        if 'rounds' not in out or nt.get('bad'):
            skipped += 1
            continue
        res, sc, script, L, P, K = _run(nt)
        rounds = len([t for t in sc.trace if t[0] == 'relabel'])
        checked += 1
        if rounds == int(out['rounds']) and [int(x) for x in res.point_labels] == script[rounds - 1]:
            agree += 1
        else:
            disagree.append({'notes': nt, 'real_rounds': rounds, 'engine_rounds': out['rounds']})
    return {'checked': checked, 'agree': agree, 'skipped': skipped, 'disagree': disagree[:5]}
