"""C11 replay: index maps on the real build (pure integer helpers)."""
import numpy as np

from .util import frac


def replay(w):
    from fast_ticc import matrix_compression as mc
    from fast_ticc.admm import unique_values as uv
    for f in (uv._compressed_index, uv.locations_compressed, uv.locations_index_slices,
              mc._upper_triangle_indices):
        getattr(f, 'cache_clear', lambda: None)()       # whatever memoisation the code uses
    ob = w['obligation']
    inp = w.get('inputs') or {}
    p = w.get('params') or {}
    obs = {}
    bad = False
    sig = None
    if ob == 'index_independent_of_earlier_sizes':
        nt = w.get('notes') or {}
        n1, n2 = int(nt['n1']), int(nt['n2'])
        for r0 in range(n1):
            for c0 in range(r0, n1):
                uv._compressed_index(r0, c0, n1)
        tri = [(i, j) for i in range(n2) for j in range(i, n2)]
        bad = [(r0, c0, int(uv._compressed_index(r0, c0, n2))) for (r0, c0) in tri
               if int(uv._compressed_index(r0, c0, n2)) != tri.index((r0, c0))]
        return {'reproduced': bool(bad), 'signature': 'index-depends-on-earlier-sizes' if bad else None,
                'observed': {'first_wrong': bad[:3], 'n1': n1, 'n2': n2}}
    if ob.startswith('index_'):
        n = int(p.get('n', inp.get('n', 1)))
        r, c = int(inp.get('r', 0)), int(inp.get('c', 0))
        tri = [(i, j) for i in range(n) for j in range(i, n)]
        try:
            got = getattr(uv._compressed_index, '__wrapped__', uv._compressed_index)(r, c, n)
            obs['index'] = got
            if c < r:
                bad, sig = True, 'no-IndexError-below-diagonal'
            elif tri.index((r, c)) != got:
                bad, sig = True, 'compressed-index-is-not-rank'
                obs['rank'] = tri.index((r, c))
        except IndexError as exc:
            obs['raised'] = repr(exc)
            if c >= r:
                bad, sig = True, 'IndexError-inside-triangle'
        return {'reproduced': bad, 'signature': sig, 'observed': obs}
    if ob in ('class_positions_valid', 'compressed_form_names_same_positions', 'slices_form_names_same_positions',
              'cached_equals_uncached', 'class_covers_position'):
        N, W = int(p['N']), int(p['W'])
        n = N * W
        tri = [(i, j) for i in range(n) for j in range(i, n)]
        seen = {}
        try:
            for b in range(W):
                for r in range(N):
                    for c in range(r if b == 0 else 0, N):
                        pos = uv._unique_variable_locations(b, r, c, N, W)
                        if len(pos) != W - b:
                            bad, sig = True, 'class-size-wrong'
                            obs['class'] = [b, r, c, len(pos)]
                        for q in pos:
                            q = (int(q[0]), int(q[1]))
                            if q in seen or q not in tri:
                                bad, sig = True, 'classes-overlap-or-leave-triangle'
                            seen[q] = (b, r, c)
                            if (q[1] // N - q[0] // N, q[0] % N, q[1] % N) != (b, r, c):
                                bad, sig = True, 'position-not-in-own-class'
                        comp = uv.locations_compressed(b, r, c, N, W)
                        if [int(k) for k in comp] != [tri.index((int(q[0]), int(q[1]))) for q in pos]:
                            bad, sig = True, 'compressed-form-differs'
                        rows, cols = uv.locations_index_slices(b, r, c, N, W)
                        if list(zip(rows, cols)) != [tuple(q) for q in pos]:
                            bad, sig = True, 'slices-form-differs'
            if not bad and set(seen) != set(tri):
                bad, sig = True, 'classes-do-not-cover-triangle'
                obs['missing'] = sorted(set(tri) - set(seen))[:5]
        except Exception as exc:
            bad, sig = True, 'helper-raises'
            obs['raised'] = repr(exc)
        return {'reproduced': bad, 'signature': sig, 'observed': obs}
    # round trips
    n = int(p.get('n', 2))
    rng = np.random.default_rng(0)
    A = rng.standard_normal((n, n))
    M = A + A.T
    try:
        first = mc.compress_matrix(M)
        keep = np.array(first, copy=True)
        back = mc.reinflate_matrix(first)
        v = rng.standard_normal(n * (n + 1) // 2)
        again = mc.compress_matrix(mc.reinflate_matrix(v))
        full = mc.reinflate_matrix(v)
        if back.shape != M.shape or not np.array_equal(back, M):
            bad, sig = True, 'reinflate-compress-not-identity'
        elif again.shape != v.shape or not np.array_equal(again, v) or not np.array_equal(full, full.T):
            bad, sig = True, 'compress-reinflate-not-identity'
        elif not np.array_equal(first, keep) or np.shares_memory(first, again):
            bad, sig = True, 'compressed-result-overwritten-by-a-later-call'
    except Exception as exc:
        bad, sig = True, 'helper-raises'
        obs['raised'] = repr(exc)
    return {'reproduced': bad, 'signature': sig, 'observed': obs}


def validate(witnesses):
    from fast_ticc.admm import unique_values as uv
    checked = agree = skipped = 0
    disagree = []
    for w in witnesses:
        nt, inp, out = w.get('notes') or {}, w.get('inputs') or {}, w.get('outputs') or {}
        if nt.get('kind') == 'classes' and 'positions' in out:
            got = uv._unique_variable_locations(int(inp['b']), int(inp['r']), int(inp['c']), int(nt['N']), int(nt['W']))
            checked += 1
            if [[int(a), int(b)] for (a, b) in got] == [[int(a), int(b)] for (a, b) in out['positions']]:
                agree += 1
            else:
                disagree.append({'inputs': inp, 'real': got, 'engine': out['positions']})
        elif nt.get('kind') == 'index' and 'index' in out:
            got = uv._compressed_index.__wrapped__(int(inp['r']), int(inp['c']), int(nt['n']))
            checked += 1
            if int(got) == int(out['index']):
                agree += 1
            else:
                disagree.append({'inputs': inp, 'real': got, 'engine': out['index']})
        else:
            skipped += 1
    return {'checked': checked, 'agree': agree, 'skipped': skipped, 'disagree': disagree[:5]}
