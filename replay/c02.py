"""C02 replay: the real ADMM pieces on the witness, KKT residuals recomputed."""
import math

import numpy as np

from .util import flt, close


def _args(N, W, lam, rho, **kw):
    from fast_ticc.containers import arguments
    return arguments.ADMMArguments(window_size=W, num_data_series=N, rho=rho, rho_update=kw.get('rho_update'),
                                   sparsity_weight=lam, absolute_tolerance=kw.get('atol', 1e-6),
                                   relative_tolerance=kw.get('rtol', 1e-6), max_iterations=kw.get('maxit', 1000),
                                   verbose=False)


def _tri(R_, C_, n):
    return R_ * n - R_ * (R_ - 1) // 2 + (C_ - R_)


def _z_check(N, W, lam, rho, x, u):
    from fast_ticc.admm import solver
    n = N * W
    L = n * (n + 1) // 2
    z = np.asarray(solver.admm_update_z(_args(N, W, lam, rho), np.array(u, float), np.array(x, float)), float)
    if z.shape != (L,):
        return 'z-update-wrong-shape', {'shape': list(z.shape)}
    seen = set()
    for b in range(W):
        for r in range(N):
            for col in range(r if b == 0 else 0, N):
                pos = [(i * N + r, (b + i) * N + col) for i in range(W - b)]
                idx = [_tri(p[0], p[1], n) for p in pos]
                seen.update(idx)
                if any(z[k] != z[idx[0]] for k in idx):
                    return 'z-update-not-block-toeplitz', {'class': [b, r, col], 'values': [z[k] for k in idx]}
                S = sum(x[k] + u[k] for k in idx)
                Q = lam * (W - b) if np.isscalar(lam) else sum(lam[p[0], p[1]] for p in pos)
                g = rho * (len(pos) * z[idx[0]] - S)
                z0 = z[idx[0]]
                tol = 1e-9 * (1 + abs(g) + abs(Q))
                ok = (z0 > 0 and abs(g + Q) <= tol) or (z0 < 0 and abs(g - Q) <= tol) or \
                     (z0 == 0 and abs(rho * S) <= Q + tol)
                if not ok:
                    return 'z-update-not-classwise-minimiser', {'class': [b, r, col], 'z': z0, 'gradient': g, 'Q': Q,
                                                                'rhoS': rho * S}
    if seen != set(range(L)):
        return 'z-update-leaves-entries-unwritten', {'missing': sorted(set(range(L)) - seen)}
    return None, {}


def replay(w):
    from fast_ticc.admm import solver
    from fast_ticc import matrix_compression as mc
    nt, inp = w.get('notes') or {}, w.get('inputs') or {}
    kind = nt.get('kind')
    ob = w['obligation']
    if kind is None:
        kind = {'soft_threshold_is_exact_prox': 'soft', 'lambda_sum_is_class_sum': 'z',
                'z_update_covers_and_is_block_toeplitz': 'z', 'z_update_is_classwise_minimiser': 'z',
                'u_update_is_running_residual': 'z', 'x_update_decomposes_right_matrix': 'x',
                'x_update_eigenvalue_stationarity': 'x', 'x_update_orientation_and_scale': 'xo',
                'stopping_rule_is_boyd_residual_test': 'conv', 'driver_matches_reference_iteration': 'driver',
                'front_end_forwards_parameters': 'front'}[ob]
    p = w.get('params') or {}
    try:
        if kind == 'soft':
            s, Q, rr = flt(inp.get('s', 0)), flt(inp.get('Q', 0)), flt(inp.get('rr', 1))
            z = float(solver.soft_threshold_prox(s, Q, rr))
            want = (s - Q) / rr if s > Q else ((s + Q) / rr if s < -Q else 0.0)
            bad = not close(z, want)
            return {'reproduced': bad, 'signature': 'soft-threshold-wrong' if bad else None,
                    'observed': {'s': s, 'Q': Q, 'rhoR': rr, 'z': z, 'prox': want}}
        if kind == 'z':
            N, W = int(p.get('N', nt.get('N', 1))), int(p.get('W', nt.get('W', 1)))
            n = N * W
            L = n * (n + 1) // 2
            rho = flt(inp.get('rho', 1))
            if p.get('lam', nt.get('lam')) == 'matrix':
                lam = np.zeros((n, n))
                for i in range(n):
                    for j in range(i, n):
                        lam[i, j] = lam[j, i] = flt(inp.get('lam_%d_%d' % (i, j), 0))
            else:
                lam = flt(inp.get('lam', 0))
            x = [flt(inp.get('x_%d' % k, 0)) for k in range(L)]
            u = [flt(inp.get('u_%d' % k, 0)) for k in range(L)]
            sig, obs = _z_check(N, W, lam, rho, x, u)
            if sig is None:
                # sweep a few more inputs of the same shape: the witness may sit on a branch the
                # float code resolves differently
                rng = np.random.default_rng(1)
                for _ in range(20):
                    xx, uu = rng.standard_normal(L), rng.standard_normal(L)
                    sig, obs = _z_check(N, W, lam if not np.isscalar(lam) else abs(rng.standard_normal()) * 0.3, rho, xx, uu)
                    if sig:
                        break
            return {'reproduced': sig is not None, 'signature': sig, 'observed': obs}
        if kind in ('x', 'xo'):
            n = int(p.get('n', nt.get('n', 2)))
            rho = flt(inp.get('rho', 1))
            rng = np.random.default_rng(2)
            A = rng.standard_normal((n, n))
            S = A @ A.T / n
            B = rng.standard_normal((n, n))
            ZmU = (B + B.T) / 2
            th = mc.reinflate_matrix(solver.x_update_prox(S, ZmU, rho))
            M = rho * ZmU - S
            resid = (rho * th - M) @ th - np.eye(n)
            bad = not np.allclose(resid, 0, atol=1e-8) or not np.allclose(th, th.T) or np.any(np.linalg.eigvalsh(th) <= 0)
            return {'reproduced': bool(bad), 'signature': 'x-update-not-stationary' if bad else None,
                    'observed': {'residual_norm': float(np.abs(resid).max()), 'rho': rho}}
        if kind == 'conv':
            L = int(p.get('L', nt.get('L', 1)))
            rho = flt(inp.get('rho', 1))
            g = lambda nm: np.array([flt(inp.get('%s_%d' % (nm, k), 0)) for k in range(L)])
            u, x, z, zo = g('u'), g('x'), g('z'), g('zo')
            atol, rtol = flt(inp.get('atol', 0)), flt(inp.get('rtol', 0))
            stop, rp, tp, rd, td = solver.check_convergence(_args(1, 1, 0.1, rho, atol=atol, rtol=rtol), u, x, z, zo)
            base = math.sqrt(L) * atol + 1e-4
            w_rp, w_rd = np.linalg.norm(x - z), np.linalg.norm(rho * (z - zo))
            w_tp = base + rtol * max(np.linalg.norm(x), np.linalg.norm(z))
            w_td = base + rtol * np.linalg.norm(rho * u)
            bad = not (close(rp, w_rp) and close(rd, w_rd) and close(tp, w_tp) and close(td, w_td)
                       and bool(stop) == (w_rp <= w_tp and w_rd <= w_td))
            return {'reproduced': bad, 'signature': 'stopping-rule-wrong' if bad else None,
                    'observed': {'got': [bool(stop), float(rp), float(tp), float(rd), float(td)],
                                 'want': [bool(w_rp <= w_tp and w_rd <= w_td), w_rp, w_tp, w_rd, w_td]}}
        if kind == 'driver':
            return _driver(nt, inp)
        if kind == 'front':
            import fast_ticc.admm as admm
            seen = []
            real = solver.run_admm_optimization
            solver.run_admm_optimization = lambda a, c_: (seen.append((a, c_)) or np.zeros(1))
            try:
                cb = lambda *a: 1.0
                admm.admm_optimize_theta(np.eye(1), 0.3, 3, 2, rho=2.5, rho_update=cb, max_iterations=7,
                                         absolute_tolerance=0.5, relative_tolerance=0.25, verbose=False)
            finally:
                solver.run_admm_optimization = real
            a = seen[0][0]
            bad = not (a.window_size == 3 and a.num_data_series == 2 and a.rho == 2.5 and a.rho_update is cb and
                       a.sparsity_weight == 0.3 and a.max_iterations == 7 and a.absolute_tolerance == 0.5 and
                       a.relative_tolerance == 0.25)
            return {'reproduced': bad, 'signature': 'front-end-alters-parameters' if bad else None, 'observed': {}}
    except Exception as exc:
        return {'reproduced': True, 'signature': 'admm-piece-raises', 'observed': {'raised': repr(exc), 'kind': kind}}
    return {'reproduced': False, 'signature': None, 'observed': {'unhandled_kind': kind}}


def _ref_admm(S, lam, N, W, rho0, budget, tol, upd):
    """ADMM for the block-Toeplitz graphical lasso written out from the paper (Hallac et al. 2017, eqs. 8-9
    and Boyd's residual test with the library's documented constants): independent of the library's own
    step functions, so a refactoring of their signatures cannot confuse the comparison."""
    n = N * W
    iu = np.triu_indices(n)
    L = len(iu[0])

    def inflate(v):
        M = np.zeros((n, n))
        M[iu] = v
        return M + M.T - np.diag(np.diag(M))
    # Toeplitz classes over the upper triangle: (block offset, row in block, column in block)
    classes = {}
    for k, (i, j) in enumerate(zip(*iu)):
        classes.setdefault((j // N - i // N, i % N, j % N), []).append(k)
    Lam = np.full((n, n), float(lam)) if np.isscalar(lam) else np.asarray(lam, float)
    x = z = u = np.zeros(L)
    rho = rho0
    for k in range(budget):
        zo = z
        M = rho * inflate(z - u) - S
        d, q = np.linalg.eigh(M)
        t = (d + np.sqrt(d * d + 4.0 * rho)) / (2.0 * rho)
        x = (q @ np.diag(t) @ q.T)[iu]
        a = x + u
        z = np.zeros(L)
        for members in classes.values():
            R_ = len(members)
            Q = sum(Lam[iu[0][m], iu[1][m]] for m in members)
            s_ = rho * sum(a[m] for m in members)
            v = (s_ - Q) / (rho * R_) if s_ > Q else ((s_ + Q) / (rho * R_) if s_ < -Q else 0.0)
            for m in members:
                z[m] = v
        u = u + x - z
        if k > 0:
            absolute = np.sqrt(L) * tol + 0.0001
            tp = absolute + tol * max(np.linalg.norm(x), np.linalg.norm(z))
            td = absolute + tol * np.linalg.norm(rho * u)
            rp, rd = np.linalg.norm(x - z), np.linalg.norm(rho * (z - zo))
            if rp <= tp and rd <= td:
                break
            if upd:
                new = upd(rho, rp, tp, rd, td)
                u = (rho / new) * u
                rho = new
    return x, k


def _driver(nt, inp):
    """Real driver vs. an independent reference ADMM (see _ref_admm)."""
    from fast_ticc.admm import solver
    from fast_ticc import matrix_compression as mc
    maxit = int(nt.get('maxit', 2))
    for cb in (bool(nt.get('cb')), not bool(nt.get('cb'))):
        r = _driver_one(maxit, cb, nt.get('S_kind', 'real'))
        if r['reproduced']:
            return r
    return r


def _driver_one(maxit, cb, S_kind='real'):
    from fast_ticc.admm import solver
    # the witness's own budget at rho = 1, and long runs at larger rho where the *dual* residual is the
    # binding half of the stopping rule (the engine's counterexample is about what the stopping rule is
    # told, which tiny budgets cannot show on concrete data)
    for (N, W, rho0, budget, lam, tol) in ((1, 1, 1.0, maxit, 0.2, 1e-3), (2, 1, 1.0, maxit, 0.2, 1e-3),
                                           (1, 2, 1.0, maxit, 0.2, 1e-3), (2, 2, 10.0, 400, 0.11, 1e-6),
                                           (2, 3, 8.0, 400, 0.0, 1e-6), (3, 1, 1.0, 400, 0.0, 1e-6)):
        n = N * W
        L = n * (n + 1) // 2
        rng = np.random.default_rng(4)
        A = rng.standard_normal((n, n))
        S = A @ A.T + np.eye(n)
        S_given = S
        if S_kind == 'int':
            # the same kind of matrix with integer entries, handed over as an integer-dtype array
            S_given = (np.rint(2 * S)).astype(np.int64)
            S_given = np.maximum(S_given, S_given.T)
            S = S_given.astype(float)
        upd = (lambda rho, rp, tp, rd, td: rho * 2.0 if rp > rd else rho / 2.0) if cb else None
        got = np.asarray(solver.run_admm_optimization(_args(N, W, lam, rho0, maxit=budget, rho_update=upd,
                                                            atol=tol, rtol=tol), S_given), float)
        x, k = _ref_admm(S, lam, N, W, rho0, budget, tol, upd)
        if got.shape != np.asarray(x).shape or not np.allclose(got, x, rtol=1e-7, atol=1e-9):
            return {'reproduced': True, 'signature': 'driver-differs-from-reference-iteration',
                    'observed': {'N': N, 'W': W, 'rho': rho0, 'budget': budget, 'rho_callback': cb, 'stopped_reference_at': k,
                                 'max_abs_difference': float(np.max(np.abs(got - np.asarray(x)))) if got.shape == np.asarray(x).shape else None}}
    return {'reproduced': False, 'signature': None, 'observed': {}}


def validate(witnesses):
    from fast_ticc.admm import solver
    checked = agree = skipped = 0
    disagree = []
    for w in witnesses:
        nt, inp, out = w.get('notes') or {}, w.get('inputs') or {}, w.get('outputs') or {}
        kind = nt.get('kind')
        if kind == 'soft' and 'z' in out:
            z = float(solver.soft_threshold_prox(flt(inp.get('s', 0)), flt(inp.get('Q', 0)), flt(inp.get('rr', 1))))
            checked += 1
            if close(z, flt(out['z'])):
                agree += 1
            else:
                disagree.append({'inputs': inp, 'real': z, 'engine': out['z']})
        elif kind == 'z' and 'z' in out:
            N, W = int(nt['N']), int(nt['W'])
            n = N * W
            L = n * (n + 1) // 2
            if nt['lam'] == 'matrix':
                lam = np.zeros((n, n))
                for i in range(n):
                    for j in range(i, n):
                        lam[i, j] = lam[j, i] = flt(inp.get('lam_%d_%d' % (i, j), 0))
            else:
                lam = flt(inp.get('lam', 0))
            x = np.array([flt(inp.get('x_%d' % k, 0)) for k in range(L)])
            u = np.array([flt(inp.get('u_%d' % k, 0)) for k in range(L)])
            z = np.asarray(solver.admm_update_z(_args(N, W, lam, flt(inp.get('rho', 1))), u, x), float)
            checked += 1
            if np.allclose(z, [flt(v) for v in out['z']], rtol=1e-9, atol=1e-12):
                agree += 1
            else:
                disagree.append({'inputs': inp, 'real': z.tolist(), 'engine': out['z']})
        elif kind == 'conv' and 'stop' in out:
            r = replay({'obligation': 'stopping_rule_is_boyd_residual_test', 'notes': nt, 'inputs': inp, 'params': {}})
            checked += 1
            if not r['reproduced'] and r['observed']['got'][0] == bool(out['stop']):
                agree += 1
            else:
                disagree.append({'inputs': inp, 'obs': r['observed'], 'engine': out['stop']})
        else:
            skipped += 1
    return {'checked': checked, 'agree': agree, 'skipped': skipped, 'disagree': disagree[:5]}
