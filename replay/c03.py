"""C03 replay: the real X-update / floor filter / log-determinant sites."""
import math
import struct

import numpy as np

from .util import flt
from .logdet_sites import replay_site


def _fp(v, default=0.0):
    if isinstance(v, dict) and 'fp64_bits' in v:
        return struct.unpack('>d', bytes.fromhex(v['fp64_bits']))[0]
    if v is None:
        return default
    try:
        return flt(v)
    except Exception:
        return default


def replay(w):
    from fast_ticc.admm import solver
    from fast_ticc import graphical_lasso as gl, matrix_compression as mc
    ob, nt, inp = w['obligation'], w.get('notes') or {}, w.get('inputs') or {}
    if ob == 'mrf_logdet_argument_in_double_range':
        return replay_site(w)
    try:
        if ob in ('eigenvalue_finite_positive_in_binary64', 'eigenvalue_positive_in_real_arithmetic'):
            n = int(nt.get('n', 1))
            rho = float(nt.get('rho', flt(inp.get('rho', 1)) if 'rho' in inp else 1.0))
            d = [_fp(inp.get('d_%d' % i), -1.0) for i in range(n)]
            if ob == 'eigenvalue_positive_in_real_arithmetic':
                d = [-(10.0 ** k) for k in (3, 9, 12)][:max(n, 1)] + [1e12]
                n = len(d)
            S = -np.diag(np.array(d, dtype=float))
            with np.errstate(all='ignore'):
                th = mc.reinflate_matrix(solver.x_update_prox(S, np.zeros((n, n)), rho))
            diag = np.sort(np.diag(th))
            bad = (not np.all(np.isfinite(th))) or np.any(diag <= 0)
            return {'reproduced': bool(bad), 'signature': 'x-update-eigenvalue-not-positive' if bad else None,
                    'observed': {'d': d, 'rho': rho, 'theta_diagonal': np.diag(th).tolist()}}
        # floor filter
        n = int(nt.get('n', 1))
        eps = _fp(inp.get('eps'), 0.0)
        L = n * (n + 1) // 2
        v = np.array([_fp(inp.get('v_%d' % k), 0.0) for k in range(L)], dtype=float)
        from fast_ticc.containers import arguments, model_state
        args = arguments.UserArguments(sparsity_weight=0.1, iteration_limit=1, label_switching_cost=1.0,
                                       min_cluster_size=1, min_meaningful_covariance=eps, num_clusters=1,
                                       num_processors=1, window_size=1, biased_covariance=False)
        st = model_state.ModelState.empty_model(args, np.zeros((1, n)))
        keep = v.copy()
        with np.errstate(all='ignore'):
            plain = mc.reinflate_matrix(v.copy())
            M = gl._reconstruct_optimized_matrix(st, v)
        bits = lambda a: np.ascontiguousarray(a, dtype=float).view(np.uint64)
        want = plain.copy()
        small = (plain < eps) & (plain > -eps)
        want[small] = 0.0
        bad = not np.array_equal(bits(M), bits(want)) or not np.array_equal(bits(v), bits(keep))
        sig = 'floor-filter-not-exact' if bad else None
        if not bad:
            a = np.array([[_fp(inp.get('a_%d_%d' % (i, j)), 0.0) for j in range(n)] for i in range(n)], dtype=float)
            ka = a.copy()
            out = gl._zero_small_elements(a, eps)
            w2 = ka.copy()
            w2[(ka < eps) & (ka > -eps)] = 0.0
            if not np.array_equal(bits(out), bits(w2)) or not np.array_equal(bits(a), bits(ka)):
                bad, sig = True, 'floor-filter-not-exact'
        return {'reproduced': bool(bad), 'signature': sig, 'observed': {'eps': eps, 'v': v.tolist(), 'got': np.asarray(M).tolist()}}
    except Exception as exc:
        return {'reproduced': True, 'signature': 'mrf-step-raises', 'observed': {'raised': repr(exc)}}


def _bits(x):
    return struct.pack('>d', float(x)).hex()


def validate(witnesses):
    """binary64 path witnesses: the engine's IEEE model vs. the real NumPy code, bit for bit."""
    from fast_ticc.admm import solver
    from fast_ticc import graphical_lasso as gl, matrix_compression as mc
    from fast_ticc.containers import arguments, model_state
    checked = agree = skipped = 0
    disagree = []
    for w in witnesses:
        nt, inp, out = w.get('notes') or {}, w.get('inputs') or {}, w.get('outputs') or {}
        try:
            if nt.get('kind') == 'eig_fp' and 'theta_diag' in out:
                n, rho = int(nt['n']), float(nt['rho'])
                d = [_fp(inp.get('d_%d' % i), 0.0) for i in range(n)]
                with np.errstate(all='ignore'):
                    th = mc.reinflate_matrix(solver.x_update_prox(-np.diag(np.array(d)), np.zeros((n, n)), rho))
                # eigh may order eigenvalues differently: compare as multisets of bit patterns
                got = sorted(_bits(v) for v in np.diag(th))
                want = sorted(_bits(_fp(v)) for v in out['theta_diag'])
                checked += 1
                if got == want:
                    agree += 1
                else:
                    disagree.append({'d': d, 'rho': rho, 'real': got, 'engine': want})
            elif nt.get('kind') == 'filter' and 'filtered' in out:
                n = int(nt['n'])
                eps = _fp(inp.get('eps'), 0.0)
                L = n * (n + 1) // 2
                v = np.array([_fp(inp.get('v_%d' % k), 0.0) for k in range(L)], dtype=float)
                args = arguments.UserArguments(sparsity_weight=0.1, iteration_limit=1, label_switching_cost=1.0,
                                               min_cluster_size=1, min_meaningful_covariance=eps, num_clusters=1,
                                               num_processors=1, window_size=1, biased_covariance=False)
                st = model_state.ModelState.empty_model(args, np.zeros((1, n)))
                with np.errstate(all='ignore'):
                    M = gl._reconstruct_optimized_matrix(st, v)
                got = [_bits(x) for x in np.asarray(M).ravel()]
                want = [_bits(_fp(x)) for row in out['filtered'] for x in (row if isinstance(row, list) else [row])]
                checked += 1
                # NaN payloads may legitimately differ in the quiet bit through x+0: compare NaN-ness there
                same = all(a == b or (a[:3] in ('7ff', 'fff') and b[:3] in ('7ff', 'fff') and
                                      np.isnan(struct.unpack('>d', bytes.fromhex(a))[0]) and
                                      np.isnan(struct.unpack('>d', bytes.fromhex(b))[0])) for a, b in zip(got, want))
                if same and len(got) == len(want):
                    agree += 1
                else:
                    disagree.append({'eps': eps, 'v': v.tolist(), 'real': got, 'engine': want})
            else:
                skipped += 1
        except Exception as exc:
            disagree.append({'raised': repr(exc), 'notes': nt})
            checked += 1
    return {'checked': checked, 'agree': agree, 'skipped': skipped, 'disagree': disagree[:5]}
