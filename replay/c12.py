"""C12 replay: real statistics step vs. NumPy's own mean/cov on the witness."""
import numpy as np

from .util import flt, close


def _state(n_, labels, data, K, biased, m=1):
    from fast_ticc.containers import arguments, model_state
    args = arguments.UserArguments(sparsity_weight=0.1, iteration_limit=2, label_switching_cost=1.0,
                                   min_cluster_size=m, min_meaningful_covariance=0, num_clusters=K,
                                   num_processors=1, window_size=1, biased_covariance=biased)
    st = model_state.ModelState.empty_model(args, data)
    st.point_labels = list(labels)
    return st


def _data(w, P, n):
    inp = w.get('inputs') or {}
    return np.array([[flt(inp.get('x_%d_%d' % (i, j), 0)) for j in range(n)] for i in range(P)], dtype=float)


def _check(new, labels, data, K, n, biased):
    for k in range(K):
        rows = data[[i for i, l in enumerate(labels) if l == k], :]
        mu = rows.mean(axis=0)
        d = len(rows) if biased else len(rows) - 1
        S = (rows - mu).T @ (rows - mu) / d
        got_mu = np.asarray(new.clusters[k].stacked_data_mean, dtype=float).reshape(-1)
        got_S = np.asarray(new.clusters[k].empirical_covariance, dtype=float).reshape(n, n)
        if got_mu.shape != mu.shape or not np.allclose(got_mu, mu, rtol=1e-9, atol=1e-9):
            return 'mean-not-of-own-windows', {'cluster': k, 'got': got_mu.tolist(), 'want': mu.tolist()}
        if not np.allclose(got_S, S, rtol=1e-9, atol=1e-9):
            return 'covariance-not-sample-covariance', {'cluster': k, 'got': got_S.tolist(), 'want': S.tolist(),
                                                        'biased': biased}
    return None, {}


def replay(w):
    from fast_ticc import cluster_maintenance as cm
    nt = w['notes']
    ob = w['obligation']
    if ob in ('mean_and_covariance_of_own_windows', 'other_fields_untouched', 'stats_after_repopulation'):
        P, K, n, labels = int(nt['P']), int(nt['K']), int(nt['n']), [int(x) for x in nt['labels']]
        biased = bool(nt.get('biased', True))
        data = _data(w, P, n)
        st = _state(n, labels, data, K, biased, m=int(nt.get('m', 1)))
        if ob == 'stats_after_repopulation':
            # as in the harness: a real repopulation first (any draw), then the statistics of the NEW membership
            for k, cl in enumerate(st.clusters):
                cl.computed_covariance = np.array([float(k)])
            try:
                st = cm.repopulate_empty_clusters(st)
            except RuntimeError as exc:
                return {'reproduced': False, 'signature': None, 'observed': {'no_donor': repr(exc)}}
            labels = [int(x) for x in st.point_labels]
        try:
            new = cm.update_all_cluster_statistics(st, data)
        except Exception as exc:
            return {'reproduced': True, 'signature': 'statistics-step-raises', 'observed': {'raised': repr(exc)}}
        if any(cl.stacked_data_mean is None or cl.empirical_covariance is None for cl in new.clusters):
            return {'reproduced': True, 'signature': 'cluster-statistics-not-computed',
                    'observed': {'labels': labels, 'sizes': [labels.count(k) for k in range(K)]}}
        sig, obs = _check(new, labels, data, K, n, biased)
        return {'reproduced': sig is not None, 'signature': sig, 'observed': obs}
    if nt.get('kind') == 'round_flow':
        return _round_flow(w)
    if nt.get('kind') == 'round_flow_repop':
        return _round_flow_repop(w)
    # task plumbing: run the real optimiser step with a recording stand-in for the ADMM entry point
    import fast_ticc.admm as admm
    from fast_ticc import graphical_lasso as gl
    K, N, W = int(nt['K']), int(nt['N']), int(nt['W'])
    n = N * W
    rng = np.random.default_rng(3)
    data = rng.standard_normal((K, n))
    st = _state(n, list(range(K)), data, K, False)
    st.arguments.window_size = W
    st.arguments.sparsity_weight = 0.25
    st.arguments.min_meaningful_covariance = 0.3
    covs = []
    for k, cl in enumerate(st.clusters):
        A = rng.standard_normal((n, n))
        cl.empirical_covariance = A @ A.T + (k + 1) * np.eye(n)
        covs.append(cl.empirical_covariance)
    seen = []
    thetas = {}

    class Res:
        def __init__(self, t):
            self.theta = t

    def fake(cov, lam, w_, n_, **kw):
        k = [i for i, c_ in enumerate(covs) if np.array_equal(c_, cov)]
        t = np.arange(n * (n + 1) // 2, dtype=float) * 0.2 - 0.5 + (k[0] if k else 99)
        for i in range(n):                       # make it positive definite enough for inv/det
            t[i * n - i * (i - 1) // 2] += 10.0
        seen.append((k, lam, w_, n_, kw))
        if k:
            thetas[k[0]] = t
        return Res(t)

    class Pool:
        def __init__(self):
            self.tasks = []

        def apply_async(self, f, a=(), kw=None):
            pool = self

            class T:
                def get(self_):
                    return f(*a, **(kw or {}))
            t = T()
            self.tasks.append(t)
            return t
    old = admm.admm_optimize_theta
    admm.admm_optimize_theta = fake
    try:
        new = gl.optimize_markov_random_fields(st, data, Pool())
    except Exception as exc:
        return {'reproduced': True, 'signature': 'optimise-step-raises', 'observed': {'raised': repr(exc)}}
    finally:
        admm.admm_optimize_theta = old
    from fast_ticc import matrix_compression as mc
    sig, obs = None, {}
    if len(seen) != K or any(s[0] != [i] for i, s in enumerate(sorted(seen, key=lambda s: s[0]))):
        sig = 'task-not-given-own-covariance'
    elif any(s[1] != 0.25 or s[2] != W or s[3] != N for s in seen):
        sig = 'task-parameters-altered'
        obs = {'seen': [(s[1], s[2], s[3]) for s in seen]}
    else:
        for k in range(K):
            want = mc.reinflate_matrix(thetas[k])
            want[np.abs(want) < 0.3] = 0
            if not np.array_equal(np.asarray(new.clusters[k].train_inverse), want):
                sig = 'result-not-stored-in-own-cluster'
                obs = {'cluster': k}
    return {'reproduced': sig is not None, 'signature': sig, 'observed': obs}


def _round_flow(w):
    import fast_ticc
    import fast_ticc.admm as admm
    from .scripted import Scripted
    nt, inp = w['notes'], w.get('inputs') or {}
    K, P, lim, biased = int(nt['K']), int(nt['P']), int(nt['limit']), bool(nt['biased'])
    pats = [[0, 0, 1, 1], [0, 1, 0, 1], [1, 1, 0, 0]]
    data = np.array([[flt(inp.get('x_%d_0' % i, i * 1.5 - (i % 2)))] for i in range(P)])
    if len(set(data.ravel().tolist())) < P:
        data = data + np.arange(P).reshape(-1, 1) * 0.37
    seen = []
    real = admm.admm_optimize_theta

    def spy(cov, *a, **k):
        seen.append(np.array(cov, copy=True))
        return real(cov, *a, **k)
    admm.admm_optimize_theta = spy
    sc = Scripted({}, K, 1, initial=pats[0], relabel=[pats[(r + 1) % 3] for r in range(lim)],
                  scripted=('bic', 'ch', 'initial', 'repopulate'))
    try:
        from fast_ticc import main_loop

        class P1:
            def apply_async(self, f, a=(), kw=None):
                class T:
                    def get(s):
                        return f(*a, **(kw or {}))
                return T()

            def close(self):
                pass

            def join(self):
                pass
        old_pool = main_loop._init_task_pool
        main_loop._init_task_pool = lambda n: P1()
        try:
            with sc:
                fast_ticc.ticc_labels(data, window_size=1, num_clusters=K, iteration_limit=lim, min_cluster_size=1,
                                      sparsity_weight=0.1, label_switching_cost=1.0, biased_covariance=biased)
        finally:
            main_loop._init_task_pool = old_pool
    except Exception as exc:
        return {'reproduced': True, 'signature': 'run-raises', 'observed': {'raised': repr(exc)}}
    finally:
        admm.admm_optimize_theta = real
    for r in range(min(lim, len(seen) // K)):
        labs = pats[r % 3] if r > 0 else pats[0]
        for k in range(K):
            rows = data[[i for i, l in enumerate(labs) if l == k], :]
            d = len(rows) if biased else len(rows) - 1
            want = float(((rows - rows.mean(axis=0)) ** 2).sum() / d)
            got = float(np.asarray(seen[r * K + k]).reshape(-1)[0])
            if not close_(got, want):
                return {'reproduced': True, 'signature': 'round-fitted-to-wrong-windows-or-estimator',
                        'observed': {'round': r, 'cluster': k, 'got': got, 'want': want, 'biased': biased}}
    return {'reproduced': False, 'signature': None, 'observed': {'tasks_seen': len(seen)}}


def _round_flow_repop(w):
    """Real front end, relabelling scripted so that every second round empties cluster 1, real
    repopulation / statistics / optimiser plumbing; a spy on the ADMM entry point records what each
    task was given."""
    import fast_ticc
    import fast_ticc.admm as admm
    from fast_ticc import main_loop
    from .scripted import Scripted
    nt, inp = w['notes'], w.get('inputs') or {}
    K, P, lim, biased, m = int(nt['K']), int(nt['P']), int(nt['limit']), bool(nt['biased']), int(nt['m'])
    data = np.array([[flt(inp.get('x_%d_0' % i, i * 1.5 - (i % 2)))] for i in range(P)])
    if len(set(data.ravel().tolist())) < P:
        data = data + np.arange(P).reshape(-1, 1) * 0.37
    lam, beta = abs(flt(inp.get('lam', 0.05))), abs(flt(inp.get('beta', 7.0)))
    if lam == beta:
        beta = lam + 1.0
    seen = []
    real = admm.admm_optimize_theta

    def spy(cov, lam_, W_, N_, *a, **k):
        seen.append((np.array(cov, copy=True), lam_, W_, N_))
        return real(cov, lam_, W_, N_, *a, **k)
    admm.admm_optimize_theta = spy
    sc = Scripted({}, K, 1, initial=[i % K for i in range(P)],
                  relabel=[[0] * P if r % 2 == 0 else [(i + r) % K for i in range(P)] for r in range(lim)],
                  scripted=('bic', 'ch', 'initial'))

    class P1:
        def apply_async(self, f, a=(), kw=None):
            class T:
                def get(s):
                    return f(*a, **(kw or {}))
            return T()

        def close(self):
            pass

        def join(self):
            pass
    old_pool = main_loop._init_task_pool
    main_loop._init_task_pool = lambda n: P1()
    try:
        with sc:
            fast_ticc.ticc_labels(data, window_size=1, num_clusters=K, iteration_limit=lim, min_cluster_size=m,
                                  sparsity_weight=lam, label_switching_cost=beta, biased_covariance=biased)
    except Exception as exc:
        return {'reproduced': True, 'signature': 'run-raises', 'observed': {'raised': repr(exc)}}
    finally:
        main_loop._init_task_pool = old_pool
        admm.admm_optimize_theta = real
    if len(seen) != lim * K or len(sc.stats_inputs) != lim:
        return {'reproduced': True, 'signature': 'wrong-number-of-optimiser-tasks',
                'observed': {'tasks': len(seen), 'rounds': len(sc.stats_inputs)}}
    for r in range(lim):
        labs = sc.stats_inputs[r]
        for k in range(K):
            cov, lam_, W_, N_ = seen[r * K + k]
            if not (isinstance(lam_, float) and lam_ == lam and W_ == 1 and N_ == 1):
                return {'reproduced': True, 'signature': 'optimiser-not-given-the-users-parameters',
                        'observed': {'round': r, 'cluster': k, 'got': repr((lam_, W_, N_)), 'user_lambda': lam}}
            rows = data[[i for i, l in enumerate(labs) if l == k], :]
            d = len(rows) if biased else len(rows) - 1
            if len(rows) < 2:
                return {'reproduced': True, 'signature': 'cluster-fitted-with-fewer-than-two-windows',
                        'observed': {'round': r, 'cluster': k, 'labels': labs}}
            want = float(((rows - rows.mean(axis=0)) ** 2).sum() / d)
            got = float(np.asarray(cov).reshape(-1)[0])
            if not close_(got, want):
                return {'reproduced': True, 'signature': 'round-fitted-to-wrong-windows-or-estimator',
                        'observed': {'round': r, 'cluster': k, 'got': got, 'want': want, 'biased': biased}}
    return {'reproduced': False, 'signature': None, 'observed': {'tasks_seen': len(seen)}}


def close_(a, b):
    return abs(a - b) <= 1e-9 * (1 + abs(a) + abs(b))


def validate(witnesses):
    from fast_ticc import cluster_maintenance as cm
    checked = agree = skipped = 0
    disagree = []
    for w in witnesses:
        nt, out = w['notes'], w.get('outputs') or {}
        if 'mean' not in out or 'labels' not in nt:
            skipped += 1
            continue
        P, K, n, labels = int(nt['P']), int(nt['K']), int(nt['n']), [int(x) for x in nt['labels']]
        data = _data(w, P, n)
        st = _state(n, labels, data, K, bool(nt['biased']))
        new = cm.update_all_cluster_statistics(st, data)
        checked += 1
        good = True
        for k in range(K):
            em = np.array([flt(v) for v in out['mean'][k]])
            ec = np.array(out['cov'][k], dtype=object)
            ec = np.array([flt(v) for v in ec.reshape(-1)]).reshape(np.asarray(new.clusters[k].empirical_covariance).shape)
            if not np.allclose(np.asarray(new.clusters[k].stacked_data_mean), em, rtol=1e-9, atol=1e-9) or \
                    not np.allclose(np.asarray(new.clusters[k].empirical_covariance), ec, rtol=1e-9, atol=1e-9):
                good = False
        if good:
            agree += 1
        else:
            disagree.append({'notes': nt, 'inputs': w['inputs']})
    return {'checked': checked, 'agree': agree, 'skipped': skipped, 'disagree': disagree[:5]}
