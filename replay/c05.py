"""C05 replay: real likelihood kernels vs. the Gaussian log-density computed
in exact rational arithmetic (log-determinant through math.log of the exactly
computed determinant)."""
import math
from fractions import Fraction

import numpy as np

from .util import frac, flt, close
from .logdet_sites import replay_site


def _vec(inp, name, n):
    return [frac(inp.get('%s_%d' % (name, i), 0)) for i in range(n)]


def _sym(inp, name, n):
    M = [[Fraction(0)] * n for _ in range(n)]
    for i in range(n):
        for j in range(i, n):
            M[i][j] = M[j][i] = frac(inp.get('%s_%d_%d' % (name, i, j), 0))
    return M


def _det(M):
    n = len(M)
    if n == 1:
        return M[0][0]
    tot = Fraction(0)
    for j in range(n):
        minor = [r[:j] + r[j + 1:] for r in M[1:]]
        tot += (-1) ** j * M[0][j] * _det(minor)
    return tot


def _pdf(x, mu, Th, ld, n):
    d = [x[i] - mu[i] for i in range(n)]
    quad = sum(d[i] * Th[i][j] * d[j] for i in range(n) for j in range(n))
    return 0.5 * (ld - float(quad) - n * math.log(2 * math.pi))


def _f(M):
    return np.array([[float(v) for v in r] for r in M], dtype=float)


def _point(w):
    from fast_ticc import likelihood
    nt, inp = w['notes'], w.get('inputs') or {}
    N, W = int(nt['N']), int(nt['W'])
    n = N * W
    x, mu, Th, ld = _vec(inp, 'x', n), _vec(inp, 'mu', n), _sym(inp, 'Th', n), flt(inp.get('ld', 0))
    real = float(likelihood.point_log_likelihood_fast(np.array([float(v) for v in x]), np.array([float(v) for v in mu]),
                                                       _f(Th), ld, W, N))
    return real, _pdf(x, mu, Th, ld, n)


def _table(w):
    from fast_ticc import likelihood
    from fast_ticc.containers import arguments, model_state
    nt, inp = w['notes'], w.get('inputs') or {}
    T, K, N, W = int(nt['T']), int(nt['K']), int(nt['N']), int(nt['W'])
    n = N * W
    X = [[frac(inp.get('x_%d_%d' % (p, j), 0)) for j in range(n)] for p in range(T)]
    data = np.array([[int(v) for v in row] for row in X], dtype=np.int64) if nt.get('data_dtype') == 'int64' else _f(X)
    args = arguments.UserArguments(sparsity_weight=0.1, iteration_limit=1, label_switching_cost=1.0,
                                   min_cluster_size=1, min_meaningful_covariance=0, num_clusters=K,
                                   num_processors=1, window_size=W, biased_covariance=False)
    st = model_state.ModelState.empty_model(args, data)
    st.point_labels = [i % K for i in range(T)]
    want = [[None] * K for _ in range(T)]
    skip = False
    for k, cl in enumerate(st.clusters):
        mu, Th = _vec(inp, 'st_mu%d' % k, n), _sym(inp, 'st_Th%d' % k, n)
        cl.stacked_data_mean = np.array([float(v) for v in mu])
        cl.train_inverse = _f(Th)
        cl.inverse_covariance = np.eye(n) * 123.0          # stale caches
        cl.log_determinant = -55.0
        d = _det(Th)
        if d <= 0:
            skip = True
            continue
        for p in range(T):
            want[p][k] = _pdf(X[p], mu, Th, math.log(d), n)
    with np.errstate(all='ignore'):
        tab = np.asarray(likelihood.all_points_all_clusters_log_likelihood(st, data), dtype=float)
    return tab, want, skip


def _reported(w):
    """End to end on the real build (fitting phases scripted from the witness, as in C06): every reported
    per-point value against the Gaussian log-density under the RETURNED MRF and the mean of that cluster in
    the model the call ended with."""
    from . import c06
    try:
        res, st, data, beta, T, K, n, lens, joint = c06._run(w)
    except Exception as exc:
        return {'reproduced': True, 'signature': 'run-raises', 'observed': {'raised': repr(exc)}}
    labs = [int(x) for x in res.point_labels]
    order = [i for k in range(K) for i in range(T) if labs[i] == k]
    got = [float(v) for v in res.all_log_likelihood]
    # the model the call ended with: its means were captured when the likelihood report was made
    import fast_ticc.main_loop as ml_mod
    want = []
    for i in order:
        k = labs[i]
        want.append(float(c06._logpdf(data[i], _final_means[k], np.asarray(res.markov_random_fields[k], float))))
    bad = len(got) != len(want) or any(not close(a, b_, rel=1e-9, ab=1e-9) for a, b_ in zip(got, want))
    return {'reproduced': bad, 'signature': 'reported-values-are-not-densities-under-the-returned-model' if bad else None,
            'observed': {'reported': got, 'density_under_returned_model': want, 'labels': labs}}


_final_means = {}


def _capture_final_means():
    """Wrap the report helper once so that the means of the final model are known to the oracle."""
    import fast_ticc.main_loop as ml_mod
    if getattr(ml_mod._compute_log_likelihood_by_cluster, '_wrapped_by_verif', False):
        return
    inner = ml_mod._compute_log_likelihood_by_cluster

    def outer(stacked, model):
        _final_means.clear()
        for k, cl in enumerate(model.clusters):
            _final_means[k] = np.array(cl.stacked_data_mean, dtype=float, copy=True)
        return inner(stacked, model)
    outer._wrapped_by_verif = True
    ml_mod._compute_log_likelihood_by_cluster = outer


def replay(w):
    if (w.get('notes') or {}).get('kind') == 'reported':
        _capture_final_means()
    if w['obligation'] == 'likelihood_logdet_argument_in_double_range':
        return replay_site(w)
    if w['notes'].get('kind') == 'reported':
        return _reported(w)
    try:
        if w['notes'].get('kind') == 'point':
            real, want = _point(w)
            bad = not close(real, want, rel=1e-9, ab=1e-9)
            return {'reproduced': bad, 'signature': 'point-density-differs' if bad else None,
                    'observed': {'real': real, 'gaussian_logpdf': want}}
        tab, want, skip = _table(w)
        if skip:
            return {'reproduced': False, 'signature': None, 'observed': {'skipped': 'non positive determinant in witness'}}
        bad = tab.shape != (len(want), len(want[0])) or any(
            not close(tab[p, k], want[p][k], rel=1e-9, ab=1e-9) for p in range(len(want)) for k in range(len(want[0])))
        return {'reproduced': bad, 'signature': 'likelihood-table-differs' if bad else None,
                'observed': {'real': tab.tolist(), 'gaussian_logpdf': want}}
    except Exception as exc:
        return {'reproduced': True, 'signature': 'likelihood-raises', 'observed': {'raised': repr(exc)}}


def validate(witnesses):
    checked = agree = skipped = 0
    disagree = []
    for w in witnesses:
        kind = w.get('notes', {}).get('kind')
        out = w.get('outputs') or {}
        if kind == 'point' and 'll' in out:
            real, want = _point(w)
            checked += 1
            if close(real, frac(out['ll']), rel=1e-9, ab=1e-9) and close(real, want, rel=1e-9, ab=1e-9):
                agree += 1
            else:
                disagree.append({'inputs': w['inputs'], 'real': real, 'engine': float(frac(out['ll'])), 'oracle': want})
        elif kind == 'table':
            tab, want, skip = _table(w)
            if skip:
                skipped += 1
                continue
            checked += 1
            if all(close(tab[p, k], want[p][k], rel=1e-9, ab=1e-9) for p in range(len(want)) for k in range(len(want[0]))):
                agree += 1
            else:
                disagree.append({'inputs': w['inputs'], 'real': tab.tolist(), 'oracle': want})
        else:
            skipped += 1
    return {'checked': checked, 'agree': agree, 'skipped': skipped, 'disagree': disagree[:5]}
