"""C01 -- label assignment returns a global minimum-cost sequence.

Exhaustive symbolic execution of the real ``assign_point_cluster_labels``
(REAL arithmetic) against a *symbolic rival sequence*: the solver searches all
K^T rivals, it is not an enumeration.  Also the caller
``predict_cluster_labels`` (what reaches the kernel, what is returned).
"""
import z3

from .base import *   # noqa


def path_cost(cost, beta, seq, T, K):
    """Total cost of label sequence ``seq`` (ints or SymInts) as a z3 Real term:
    assignment costs plus beta[i] for every pair (i,i+1) with different labels."""
    terms = []
    for i in range(T):
        terms.append(R(select([cost[i, k] for k in range(K)], seq[i])))
    for i in range(T - 1):
        ne = I(seq[i]) != I(seq[i + 1])
        terms.append(z3.If(ne, R(beta[i]), z3.RealVal(0)))
    return rsum(terms)


class C01(Check):
    pid = 'C01'
    validate = True
    fork_logging = True       # DEBUG logging on/off is a symbolic input of every path
    anchors = [('src/fast_ticc/cluster_label_assignment.py', 'assign_point_cluster_labels'),
               ('src/fast_ticc/cluster_label_assignment.py', 'predict_cluster_labels')]
    obligations = ['labels_valid', 'reported_cost_is_cost_of_returned_path', 'optimal_vs_any_rival',
                   'scalar_equals_constant_vector', 'predict_hands_neg_loglik_and_beta_to_kernel',
                   'predict_returns_kernel_result']
    obligation_text = {
        'labels_valid': 'len(path)=T and every label is an integer in [0,K)',
        'reported_cost_is_cost_of_returned_path': 'true_cost = sum c[i][path[i]] + sum_{i<T-1} beta[i]*[path[i]!=path[i+1]]',
        'optimal_vs_any_rival': 'for every rival q in [0,K)^T: cost(q) >= true_cost (rival is symbolic)',
        'scalar_equals_constant_vector': 'kernel(c, b) and then kernel(c, [b]*T) on the same table object return the same path and cost, and the table is left as the caller built it',
        'predict_hands_neg_loglik_and_beta_to_kernel': 'table handed to the kernel is -loglik; switching cost is the model argument unchanged',
        'predict_returns_kernel_result': "returned state's labels/cost are exactly the kernel's; input state untouched",
    }
    stubs = ['numba absent (repo fallback decorators)',
             'likelihood.all_points_all_clusters_log_likelihood -> arbitrary symbolic T x K table (predict harness only)']
    assumptions = ['python floats are modelled as exact reals (REAL mode): rounding is outside the claim',
                   'beta >= 0 as the property states']
    outside_claim = ['binary64 rounding', 'T,K beyond the stated bounds', 'the Numba-compiled kernel '
                     '(exercised only on replayed witnesses)', 'K >= 65536 (the uint16 successor table; unsigned stores are modelled as wrapping)']
    canary = {'what': 'label_switching_cost[i] -> label_switching_cost[i+1] in the candidate totals',
              'edits': [('fast_ticc/cluster_label_assignment.py',
                         'total_vals = future_cost_vals[i+1] + label_assignment_cost[i+1] + label_switching_cost[i]',
                         'total_vals = future_cost_vals[i+1] + label_assignment_cost[i+1] + label_switching_cost[min(i+1, num_points-1)]')]}

    def bounds(self, tier):
        return {'shapes_TxK': self._shapes(tier), 'beta_forms': ['scalar', 'vector'],
                'integer-dtype tables': 'entries -4..4, T x K up to 3x2' + ('' if tier == 'quick' else ', 4x2, 3x3'),
                'costs': 'unconstrained reals (ties, negatives, any spread)', 'beta': '>= 0'}

    def _shapes(self, tier):
        q = [(1, 1), (1, 3), (2, 1), (2, 2), (3, 2), (2, 3), (3, 3), (4, 2)]
        if tier == 'thorough':
            q += [(5, 2), (4, 3), (6, 2), (3, 4), (2, 5), (5, 3)]
        return q

    def configs(self, tier):
        cfgs = []
        for (T, K) in self._shapes(tier):
            big = K ** T >= 81
            for form in ('vector', 'scalar'):
                cfgs.append(Config('kernel_T%d_K%d_%s' % (T, K, form), self.kernel,
                                   {'T': T, 'K': K, 'form': form},
                                   split=(6 if big else None),
                                   witness_every=(1 if K ** T <= 8 else 7 if not big else 211)))
        for (T, K) in [(2, 2), (3, 2)] + ([(3, 3)] if tier == 'thorough' else []):
            cfgs.append(Config('both_forms_T%d_K%d' % (T, K), self.both_forms, {'T': T, 'K': K}))
        # the cost table as an integer array (costs are integers, beta is not): the kernel's work
        # buffers must not inherit a dtype in which a cost-to-go cannot be stored
        for (T, K) in [(2, 2), (3, 2)] + ([(4, 2), (3, 3)] if tier == 'thorough' else []):
            for form in ('vector', 'scalar'):
                cfgs.append(Config('kernel_int_table_T%d_K%d_%s' % (T, K, form), self.kernel,
                                   {'T': T, 'K': K, 'form': form, 'table': 'int64'}, split=4, witness_every=5))
        # many clusters: the successor table must hold indices up to K-1 (K = 300 > 2^8)
        for K in ([300] if tier == 'quick' else [300, 1000]):
            cfgs.append(Config('kernel_wide_K%d' % K, self.wide, {'K': K}, witness_every=1))
        for (T, K) in [(2, 2), (3, 2)] + ([(3, 3), (4, 2)] if tier == 'thorough' else []):
            for form in ('vector', 'scalar'):
                cfgs.append(Config('predict_T%d_K%d_%s' % (T, K, form), self.predict,
                                   {'T': T, 'K': K, 'form': form}))
        return cfgs

    # ---- the kernel against a symbolic rival
    def kernel(self, c, T, K, form, table='float64'):
        Rp = self.R
        if table == 'int64':
            cost = stubs.sym_array(c, 'c', (T, K), kind='int', lo=-4, hi=4, writeable=False)
            c.notes['table_dtype'] = 'int64'
        else:
            cost = stubs.sym_array(c, 'c', (T, K), writeable=False)
            c.notes.pop('table_dtype', None)
        if form == 'vector':
            beta_in = stubs.sym_array(c, 'b', (T,), lo=0, writeable=False)
            beta = [beta_in[i] for i in range(T)]
        else:
            beta_in = c.real('b', 0)
            beta = [beta_in] * T
        q = [c.int('q_%d' % i, 0, K - 1) for i in range(T)]
        c.notes.update({'T': T, 'K': K, 'form': form})
        ok, res = guarded(c, 'labels_valid', Rp.cla.assign_point_cluster_labels, cost, beta_in)
        if not ok:
            return
        path, true_cost = res
        c.outputs['path'] = list(path)
        c.outputs['cost'] = true_cost
        valid = [len(path) == T]
        for p in path:
            if isinstance(p, core.SymInt):
                valid.append(z3.And(I(p) >= 0, I(p) < K))
            else:
                valid.append(isinstance(p, int) and not isinstance(p, bool) and 0 <= p < K)
        if not c.prove('labels_valid', conj(valid)):
            return
        pc = path_cost(cost, beta, path, T, K)
        c.prove('reported_cost_is_cost_of_returned_path', pc == R(true_cost))
        qc = path_cost(cost, beta, q, T, K)
        c.prove('optimal_vs_any_rival', qc >= R(true_cost))

    def wide(self, c, K):
        """T = 2 with K in the hundreds: all but four cost entries are one concrete (expensive)
        value, so the kernel's per-cluster decisions collapse to a handful of paths, while the
        indices that flow through the successor table are large."""
        Rp = self.R
        T = 2
        hi, hi2, lo = K - 20, K - 10, 3
        vals = [[1000.0] * K for _ in range(T)]
        sym = {}
        for (i, k) in ((0, lo), (0, hi), (1, hi), (1, hi2)):
            sym[(i, k)] = c.real('c_%d_%d' % (i, k), -50, 50)
            vals[i][k] = sym[(i, k)]
        cost = np.ndarray._new([vals[i][k] for i in range(T) for k in range(K)], (T, K), np.float64, owner='caller')
        cost._b.writeable = False
        b = c.real('b', 0)
        beta = [b] * T
        c.notes.update({'T': T, 'K': K, 'form': 'scalar', 'wide': [lo, hi, hi2]})
        ok, res = guarded(c, 'labels_valid', Rp.cla.assign_point_cluster_labels, cost, b)
        if not ok:
            return
        path, true_cost = res
        c.outputs['path'] = list(path)
        c.outputs['cost'] = true_cost
        valid = [len(path) == T] + [z3.And(I(p) >= 0, I(p) < K) for p in path]
        if not c.prove('labels_valid', conj(valid)):
            return
        # only the four symbolic entries and one representative expensive cluster can be optimal
        cand = [lo, hi, hi2, 0]

        def cst(seq):
            t = [R(select([cost[i, k] for k in range(K)], seq[i])) for i in range(T)]
            t.append(z3.If(I(seq[0]) != I(seq[1]), R(b), z3.RealVal(0)))
            return rsum(t)
        c.prove('reported_cost_is_cost_of_returned_path', cst(path) == R(true_cost))
        q = [c.int('q_%d' % i, 0, K - 1) for i in range(T)]
        c.prove('optimal_vs_any_rival', cst(q) >= R(true_cost))

    def both_forms(self, c, T, K):
        Rp = self.R
        cost = stubs.sym_array(c, 'c', (T, K))
        b = c.real('b', 0)
        vec = np.ndarray._new([b] * T, (T,), np.float64, owner='caller')
        c.notes.update({'T': T, 'K': K, 'form': 'both'})
        snap = stubs.snapshot(cost)
        ok, r1 = guarded(c, 'scalar_equals_constant_vector', Rp.cla.assign_point_cluster_labels, cost, b)
        if not ok:
            return
        ok, r2 = guarded(c, 'scalar_equals_constant_vector', Rp.cla.assign_point_cluster_labels, cost, vec)
        if not ok:
            return
        (p1, c1), (p2, c2) = r1, r2
        same = [len(p1) == len(p2), R(c1) == R(c2)] + [I(x) == I(y) for x, y in zip(p1, p2)]
        # the same caller-owned table is labelled twice: it must still be the caller's table
        same.append(stubs.unchanged(snap, cost))
        c.prove('scalar_equals_constant_vector', conj(same))

    # ---- the caller
    def predict(self, c, T, K, form):
        Rp = self.R
        n = 1
        args = Rp.arguments.UserArguments(
            sparsity_weight=0.1, iteration_limit=1,
            label_switching_cost=(c.real('b', 0) if form == 'scalar' else stubs.sym_array(c, 'b', (T,), lo=0)),
            min_cluster_size=1, min_meaningful_covariance=0, num_clusters=K, num_processors=1,
            window_size=1, biased_covariance=False)
        data = stubs.sym_array(c, 'x', (T, n))
        model = Rp.model_state.ModelState.empty_model(args, data)
        init = [i % K for i in range(T)]
        model.point_labels = list(init)
        ll = stubs.sym_array(c, 'll', (T, K), owner='lib')
        seen = {}
        real_kernel = Rp.cla.assign_point_cluster_labels
        real_ll = Rp.likelihood.all_points_all_clusters_log_likelihood

        def fake_ll(m, d):
            seen['ll_args'] = (m, d)
            return ll

        def spy(label_assignment_cost, label_switching_cost):
            seen['cost'] = label_assignment_cost
            # the table AS HANDED OVER (what the kernel does to its argument afterwards is not this obligation)
            seen['cost_at_entry'] = label_assignment_cost.copy() if isinstance(label_assignment_cost, np.ndarray) else None
            seen['beta'] = label_switching_cost
            r = real_kernel(label_assignment_cost=label_assignment_cost,
                            label_switching_cost=label_switching_cost)
            seen['ret'] = r
            return r
        Rp.likelihood.all_points_all_clusters_log_likelihood = fake_ll
        Rp.cla.assign_point_cluster_labels = spy
        try:
            ok, new = guarded(c, 'predict_returns_kernel_result', Rp.cla.predict_cluster_labels, model, data)
        finally:
            Rp.likelihood.all_points_all_clusters_log_likelihood = real_ll
            Rp.cla.assign_point_cluster_labels = real_kernel
        if not ok:
            return
        c.notes.update({'T': T, 'K': K, 'form': form})
        f = [seen.get('ll_args', (None, None))[0] is model, seen.get('ll_args', (None, None))[1] is data,
             'cost' in seen and isinstance(seen['cost'], np.ndarray) and seen['cost'].shape == (T, K)]
        if all(f):
            for i in range(T):
                for k in range(K):
                    f.append(R(seen['cost_at_entry'][i, k]) == -R(ll[i, k]))
            bs = seen['beta']
            if form == 'scalar':
                f.append(stubs.same_terms(bs, args.label_switching_cost))
            else:
                f.append(isinstance(bs, np.ndarray) and bs.shape == (T,))
                if f[-1]:
                    for i in range(T):
                        f.append(R(bs[i]) == R(args.label_switching_cost[i]))
        c.prove('predict_hands_neg_loglik_and_beta_to_kernel', conj(f))
        path, cost = seen['ret']
        g = [new is not model, list(model.point_labels) == init, len(new.point_labels) == T,
             len(new.clusters) == K]
        if all(g):
            for x, y in zip(new.point_labels, path):
                g.append(I(x) == I(y))
            g.append(R(new.label_assignment_cost) == R(cost))
        c.prove('predict_returns_kernel_result', conj(g))
        # end to end: the labels in the returned state are optimal for -ll and the user's beta
        beta = [args.label_switching_cost] * T if form == 'scalar' else [args.label_switching_cost[i] for i in range(T)]
        q = [c.int('q_%d' % i, 0, K - 1) for i in range(T)]
        neg = np.ndarray._new([-v for v in ll._flat()], (T, K), np.float64)
        c.prove('optimal_vs_any_rival',
                path_cost(neg, beta, q, T, K) >= R(new.label_assignment_cost))


CHECK = C01()
