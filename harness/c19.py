"""C19 -- caller-owned data is never modified.

Every shim array carries an owner tag and a writeable flag; caller-owned
arrays are created read-only, views inherit both, and any write raises as
NumPy's "assignment destination is read-only" would.
"""
import z3

from .base import *   # noqa
from . import states, logdet
from .mainloop import MainLoop
from .c06 import data_pattern, mean_pattern
from .c02 import EighStub


def caller_array(c, name, shape, kind='real', lo=None):
    a = stubs.sym_array(c, name, shape, kind=kind, owner='caller', lo=lo, writeable=False)
    return a


def no_caller_writes():
    return not [w for w in np.WRITE_LOG if w[0] == 'caller']


class C19(Check):
    pid = 'C19'
    validate = True
    fork_logging = True       # DEBUG logging on/off is a symbolic input of every path
    anchors = [('src/fast_ticc/cluster_label_assignment.py', 'assign_point_cluster_labels'),
               ('src/fast_ticc/admm/front_end.py', 'admm_optimize_theta'),
               ('src/fast_ticc/admm/solver.py', 'run_admm_optimization'),
               ('src/fast_ticc/graphical_lasso.py', '_zero_small_elements'),
               ('src/fast_ticc/data_preparation.py', 'stack_training_data'),
               ('src/fast_ticc/front_end.py', 'ticc_labels'), ('src/fast_ticc/front_end.py', 'ticc_joint_labels')]
    obligations = ['kernel_leaves_inputs_alone', 'optimiser_leaves_inputs_alone', 'filter_copy_leaves_input_alone',
                   'stacking_leaves_inputs_alone', 'front_ends_leave_inputs_alone', 'failing_call_leaves_inputs_alone']
    obligation_text = {
        'kernel_leaves_inputs_alone': 'labelling kernel: cost table and per-pair beta vector unchanged, no write attempt, read-only inputs accepted',
        'optimiser_leaves_inputs_alone': 'admm_optimize_theta (<=2 iterations, with/without rho_update): covariance and matrix-valued lambda unchanged, no write attempt',
        'filter_copy_leaves_input_alone': '_zero_small_elements(copy=True) returns a new array and leaves its argument alone',
        'stacking_leaves_inputs_alone': 'stacking helpers never write the series (nor reorder / mutate the list of series)',
        'front_ends_leave_inputs_alone': 'both front ends with read-only data series, matrix lambda and vector beta: all unchanged, the list object of series unchanged, no exception caused by the read-only flag',
        'failing_call_leaves_inputs_alone': 'when the call raises (injected optimiser fault / wrong kind of input) the arguments are unchanged as well',
    }
    stubs = ['fitting phases as in C06 (summaries with symbolic MRFs); statistics phase real in the front-end configuration',
             'eigh -> q=I contract stub in the optimiser configuration']
    assumptions = ['the shim has one memory layout: C- vs Fortran-ordered inputs are outside (nothing in the repo depends on strides)']
    outside_claim = ['Fortran-ordered inputs', 'sizes beyond the bounds']
    canary = {'what': 'the floor filter helper works in place by default',
              'edits': [('fast_ticc/graphical_lasso.py', 'def _zero_small_elements(array: np.ndarray, epsilon: float, copy: bool=True) -> np.ndarray:',
                         'def _zero_small_elements(array: np.ndarray, epsilon: float, copy: bool=False) -> np.ndarray:')]}

    def bounds(self, tier):
        return {'kernel': 'T<=3,K<=2 scalar/vector beta' if tier == 'quick' else 'T<=4,K<=3',
                'optimiser': '(N,W)=(1,1) fully symbolic; (2,1),(1,2) on concrete diagonal inputs (write detection only); max_iterations 1..2, matrix and scalar lambda, with/without rho callback',
                'front ends': 'single T=3 / joint lengths (2,2), K=2, W in {1,2}, N=1'}

    def configs(self, tier):
        q = tier == 'quick'
        cfgs = []
        for (T, K) in ([(2, 2), (3, 2)] if q else [(2, 2), (3, 2), (3, 3), (4, 2)]):
            for form in ('vector', 'scalar'):
                cfgs.append(Config('kernel_T%d_K%d_%s' % (T, K, form), self.kernel, {'T': T, 'K': K, 'form': form}))
        for (N, W) in [(1, 1), (2, 1), (1, 2)]:
            for lam in ('matrix', 'scalar'):
                for cb in (False, True):
                    cfgs.append(Config('optimiser_N%d_W%d_%s_cb%d' % (N, W, lam, cb), self.optimiser,
                                       {'N': N, 'W': W, 'lam': lam, 'cb': cb}, nonlinear=True, split=2))
        for (N, W) in [(2, 1), (1, 2)]:
            cfgs.append(Config('optimiser_writable_N%d_W%d' % (N, W), self.optimiser_writable, {'N': N, 'W': W},
                               nonlinear=True))
        cfgs.append(Config('filter', self.filter, {}))
        cfgs.append(Config('stacking', self.stacking, {}, split=2))
        for W in (1, 2):
            cfgs.append(Config('front_single_W%d' % W, self.front, {'joint': False, 'W': W}, split=4))
            cfgs.append(Config('front_joint_W%d' % W, self.front, {'joint': True, 'W': W}, split=4))
            cfgs.append(Config('front_joint_vector_beta_W%d' % W, self.front, {'joint': True, 'W': W, 'vector': True}, split=4))
            # the caller's LIST of series holds integer arrays: neither the arrays nor the list's slots may change
            cfgs.append(Config('front_joint_int_series_W%d' % W, self.front, {'joint': True, 'W': W, 'elem': 'int64'}, split=4))
        cfgs.append(Config('failing', self.failing, {}, split=3))
        for cf in cfgs:
            cf.witness_every = cf.witness_every or 7
        return cfgs

    def kernel(self, c, T, K, form):
        Rp = self.R
        cost = caller_array(c, 'c', (T, K))
        beta = caller_array(c, 'b', (T,), lo=0) if form == 'vector' else c.real('b', 0)
        snaps = [stubs.snapshot(cost), stubs.snapshot(beta)]
        c.notes.update({'kind': 'kernel', 'T': T, 'K': K, 'form': form})
        ok, res = guarded(c, 'kernel_leaves_inputs_alone', Rp.cla.assign_point_cluster_labels, cost, beta)
        if not ok:
            return
        c.prove('kernel_leaves_inputs_alone',
                conj([no_caller_writes(), stubs.unchanged(snaps[0], cost), stubs.unchanged(snaps[1], beta)]))

    def optimiser(self, c, N, W, lam, cb):
        Rp = self.R
        n = N * W
        if n == 1:
            S = stubs.sym_symmetric(c, 'S', n)
            S._b.writeable = False
            if lam == 'matrix':
                L = stubs.sym_symmetric(c, 'lam', n)
                for v in L._flat():
                    c.assume(R(v) >= 0)
                L._b.writeable = False
            else:
                L = c.real('lam', 0)
            eig = EighStub(c, 'identity')
        else:
            # larger shapes: concrete diagonal covariance (so that eigh is (diagonal, I) exactly) -- the
            # shim still sees every write; values are not the subject here
            S = stubs.const_array([[float(i + 1) if i == j else 0.0 for j in range(n)] for i in range(n)])
            S._b.writeable = False
            L = stubs.const_array([[0.25] * n for _ in range(n)]) if lam == 'matrix' else 0.25
            if lam == 'matrix':
                L._b.writeable = False

            def eig(M):
                M = np.asarray(M)
                return (M.diagonal().copy(), np.eye(n))
        snaps = [stubs.snapshot(S), stubs.snapshot(L)]
        stubs.install_linalg(eigh=eig, norm=stubs.norm_exact)
        mi = int(c.int('maxit', 1, 2))
        rho_cb = (lambda rho, rp, tp, rd, td: rho * 2) if cb else None
        c.notes.update({'kind': 'optimiser', 'N': N, 'W': W, 'lam': lam, 'cb': cb, 'maxit': mi})
        ok, res = guarded(c, 'optimiser_leaves_inputs_alone', Rp.admm.admm_optimize_theta, S, L, W, N,
                          max_iterations=mi, rho_update=rho_cb)
        if not ok:
            return
        c.prove('optimiser_leaves_inputs_alone',
                conj([no_caller_writes(), stubs.unchanged(snaps[0], S), stubs.unchanged(snaps[1], L),
                      hasattr(res, 'theta') and res.theta._b is not S._b]))

    def optimiser_writable(self, c, N, W):
        """Writable caller-owned arguments whose two triangles are independent values (a covariance
        that is symmetric only up to round-off): nothing may be written back into them.  One
        iteration on symbolic entries; eigh sees whatever the code hands it (opaque result)."""
        Rp = self.R
        n = N * W
        S = stubs.sym_array(c, 'S', (n, n), owner='caller', writeable=True)
        L = stubs.sym_array(c, 'lam', (n, n), owner='caller', lo=0, writeable=True)
        snaps = [stubs.snapshot(S), stubs.snapshot(L)]

        def eig(M):
            M = np.asarray(M)
            k = M.shape[0]
            return (np.array([c.real(c.fresh_name('ev'), 0) for _ in range(k)]), np.eye(k))
        stubs.install_linalg(eigh=eig, norm=stubs.norm_exact)
        c.notes.update({'kind': 'optimiser_writable', 'N': N, 'W': W})
        ok, res = guarded(c, 'optimiser_leaves_inputs_alone', Rp.admm.admm_optimize_theta, S, L, W, N,
                          max_iterations=1)
        if not ok:
            return
        c.prove('optimiser_leaves_inputs_alone',
                conj([stubs.unchanged(snaps[0], S), stubs.unchanged(snaps[1], L), no_caller_writes()]))

    def filter(self, c):
        Rp = self.R
        M = caller_array(c, 'm', (2, 2))
        eps = c.real('eps', 0)
        snap = stubs.snapshot(M)
        c.notes.update({'kind': 'filter'})
        ok, out = guarded(c, 'filter_copy_leaves_input_alone', Rp.gl._zero_small_elements, M, eps)
        if not ok:
            return
        c.prove('filter_copy_leaves_input_alone', conj([out._b is not M._b, no_caller_writes(), stubs.unchanged(snap, M)]))

    def stacking(self, c):
        Rp = self.R
        dp = Rp.data_preparation
        W = int(c.int('W', 1, 3))
        lens = [int(c.int('L_%d' % s, W, W + 1)) for s in range(2)]
        series = [caller_array(c, 'd%d' % s, (lens[s], 2), kind='bits') for s in range(2)]
        given = list(series)
        snaps = [stubs.snapshot(a) for a in series]
        c.notes.update({'kind': 'stacking', 'W': W, 'lens': lens})
        ok, out = guarded(c, 'stacking_leaves_inputs_alone', dp.stack_training_data_multiple_series, given, W)
        if not ok:
            return
        ok, out1 = guarded(c, 'stacking_leaves_inputs_alone', dp.stack_training_data, series[0], W)
        if not ok:
            return
        c.prove('stacking_leaves_inputs_alone',
                conj([no_caller_writes(), len(given) == 2, given[0] is series[0], given[1] is series[1]] +
                     [stubs.unchanged(sn, a) for sn, a in zip(snaps, series)]))

    def _front_call(self, c, joint, W, fault=None, vector=False, elem='float64', inf_beta=False):
        Rp = self.R
        K, N = 2, 1
        n = N * W
        if joint and elem == 'int64':
            series = [np.array([[int(3 * data_pattern(i, 0, s))] for i in range(W + 1)], dtype=np.int64) for s in range(2)]
            for a in series:
                a._b.owner = 'caller'
        elif joint:
            series = [stubs.const_array([[data_pattern(i, 0, s)] for i in range(W + 1)]) for s in range(2)]
        else:
            series = [stubs.const_array([[data_pattern(i, 0)] for i in range(W + 2)])]
        for a in series:
            a._b.writeable = False
        lam = stubs.sym_symmetric(c, 'lam', n)
        lam._b.writeable = False
        T = sum(len(a) - W + 1 for a in series)
        beta = c.real('b', 0) if (joint and not vector) else caller_array(c, 'b', (T,), lo=0)
        if inf_beta and isinstance(beta, np.ndarray):
            beta._b.data[beta._ix[0]] = float('inf')          # concrete +inf in the caller's vector
        given = list(series)
        protected = series + [lam, beta]
        snaps = [stubs.snapshot(a) for a in protected]
        ld = logdet.OpaqueLogDet(c)
        stubs.install_linalg(det=ld.det, slogdet=ld.slogdet)
        ml = MainLoop(Rp, c, K, n, modes={'relabel': 'real', 'point_ll': 'real', 'initial': 'summary', 'optimise': 'real'},
                      spd='dominant', concrete_mean=mean_pattern, fault=fault)
        ml.s_initial = lambda k, d: [i % K for i in range(len(d))]
        real_update = Rp.gl._update_cluster_covariances

        def update(model, cluster, theta):
            # real reconstruction/filter path, then make the MRF one of the harness's PD symbols so that
            # the relabel step stays linear
            new = real_update(model, cluster, theta)
            k = [i for i, cl in enumerate(model.clusters) if cl is cluster][0]
            new.train_inverse = ml.named_sym('Th_r%d_k%d' % (ml.round, k), n)
            logdet.assume_diag_dominant(c, new.train_inverse)
            return new
        Rp.gl._update_cluster_covariances = update
        kw = dict(window_size=W, num_clusters=K, iteration_limit=1, min_cluster_size=1, sparsity_weight=lam,
                  label_switching_cost=beta, min_meaningful_covariance=c.real('eps', 0))
        raised = None
        res = None
        try:
            with ml:
                try:
                    if joint:
                        res = Rp.front_end.ticc_joint_labels(given, **kw)
                    else:
                        res = Rp.front_end.ticc_labels(given[0], **kw)
                except (core.PathAbort, core.Unsupported, core.HarnessError):
                    raise
                except Exception as exc:
                    raised = exc
        finally:
            Rp.gl._update_cluster_covariances = real_update
        intact = conj([no_caller_writes(), len(given) == len(series)] + [a is b for a, b in zip(given, series)] +
                      [a.dtype == (np.int64 if elem == 'int64' else np.float64) for a in series] +
                      [stubs.unchanged(sn, a) for sn, a in zip(snaps, protected)])
        return res, raised, intact

    def front(self, c, joint, W, vector=False, elem='float64', inf_beta=False):
        c.notes.update({'kind': 'front', 'joint': joint, 'W': W, 'vector': vector, 'elem': elem, 'inf_beta': inf_beta})
        res, raised, intact = self._front_call(c, joint, W, vector=vector, elem=elem, inf_beta=inf_beta)
        if raised is not None:
            c.notes['unexpected_exception'] = repr(raised)
            c.prove('front_ends_leave_inputs_alone', False, detail={'raised': repr(raised)})
            return
        c.prove('front_ends_leave_inputs_alone', intact)

    def failing(self, c):
        Rp = self.R
        which = int(c.int('which', 0, 2))
        c.notes.update({'kind': 'failing', 'which': which})
        if which == 2:
            # wrong kind of input: a list to the single front end
            a = stubs.const_array([[0.0], [1.0], [2.0]])
            a._b.writeable = False
            lst = [a]
            snap = stubs.snapshot(a)
            try:
                Rp.front_end.ticc_labels(lst, window_size=1, num_clusters=2)
                raised = None
            except TypeError as exc:
                raised = exc
            c.prove('failing_call_leaves_inputs_alone',
                    conj([raised is not None, no_caller_writes(), stubs.unchanged(snap, a), len(lst) == 1 and lst[0] is a]))
            return
        phase = ['optimise', 'relabel'][which]

        def fault(rnd, ph):
            return stubs.InjectedFault('injected') if ph == phase else None
        res, raised, intact = self._front_call(c, False, 1, fault=fault)
        c.prove('failing_call_leaves_inputs_alone', conj([isinstance(raised, stubs.InjectedFault), res is None, intact]))


CHECK = C19()
