"""Shared: the range side-condition of ``np.log(np.linalg.det(M))``.

The ``det`` contract stub returns the exact determinant AND registers, for
every call, the obligation that a binary64 result exists for it: the exact
value must not underflow to 0 or overflow to inf (with a safety margin so
that the witness is robust against LAPACK's rounding).  ``slogdet`` has no
such side condition: it returns the log-determinant directly.
"""
import z3

from symx import core, symnp, stubs
from symx.stubs import R

np = symnp

UNDERFLOW = z3.Q(1, 2 ** 1080)
OVERFLOW = z3.RealVal(2 ** 1025)
LOGDET = z3.Function('LOGDET_OF', z3.RealSort(), z3.RealSort())


class DetWithRange:
    def __init__(self, obligation):
        self.obligation = obligation
        self.calls = 0

    def __call__(self, M):
        c = core.ctx()
        d = stubs.det_exact(M)
        self.calls += 1
        if isinstance(d, core.Sym):
            c.prove(self.obligation, z3.And(R(d) >= UNDERFLOW, R(d) <= OVERFLOW))
        return d


def slogdet_stub(M):
    """(sign, log|det|) with log|det| = LOG(det) for a positive determinant."""
    d = stubs.det_exact(M)
    if isinstance(d, core.Sym):
        return (1.0, core.SymReal(core.log_term(R(d))))
    import math
    return (1.0 if d > 0 else -1.0, math.log(abs(d)))


def scaled_identity(c, n, name='t'):
    """t * I_n with ln det = n ln t in [-3000, 3000] and t within [2^-40, 2^40]
    (sensor variances 1e-12 .. 1e12)."""
    # |ln det| = n |ln t| <= 3000  <=>  |log2 t| <= 4328/n ; sensor scale 1e-12..1e12 ~ 2^+-40
    k = min(40, 4328 // n)
    t = c.real(name, 2.0 ** -k, 2.0 ** k)
    M = np.zeros((n, n))
    for i in range(n):
        M._b.data[i * n + i] = t
    return t, M


class OpaqueLogDet:
    """slogdet/det contract that keeps obligations *linear*: ln det M is an
    opaque real symbol per (syntactically identified) matrix; det M is a fresh
    positive symbol whose ln is that same symbol.  The same stub instance
    serves the code under test and the harness's specification."""

    def __init__(self, c, prefix='ld'):
        self.c = c
        self.prefix = prefix
        self.table = []      # (entries, ld symbol, det symbol or None)

    def _find(self, M):
        M = np.asarray(M)
        ents = M._flat()
        for row in self.table:
            if len(row[0]) == len(ents) and all(stubs.same_terms(a, b) is True for a, b in zip(row[0], ents)):
                return row
        ld = core.SymReal(self.c.fresh_real(self.prefix))
        row = [ents, ld, None]
        self.table.append(row)
        n = 1 if M.ndim == 0 else M.shape[0]
        # witness/counterexample normalisation hint: M = s*I for a scale s whose ln is
        # (to 12 digits) known, and ln det M = n ln s -- then the real build, which
        # computes the true ln det, follows the same path as the engine
        import math
        from fractions import Fraction
        alts = []
        for sc in (1, 2, 3, 4, 5, 6, 8, 12, 16, 24, 32, 64):
            approx = Fraction(round(n * math.log(sc) * 10 ** 12), 10 ** 12)
            h = [R(ld) == core._const_real(approx)]
            for i in range(n):
                for j in range(n):
                    v = ents[i * n + j]
                    if isinstance(v, core.Sym):
                        h.append(R(v) == (sc if i == j else 0))
            alts.append(z3.And(*h))
        self.c.norm_hints.append(z3.Or(*alts))
        return row

    def logdet(self, M):
        return self._find(M)[1]

    def slogdet(self, M):
        return (1.0, self._find(M)[1])

    def det(self, M):
        row = self._find(M)
        if row[2] is None:
            d = self.c.fresh_real('det')
            self.c.assume(d > 0)
            self.c.logs.append((d, R(row[1])))
            row[2] = core.SymReal(d)
        return row[2]


def assume_diag_dominant(c, M):
    """A linear sufficient condition for positive definiteness."""
    n = M.shape[0]
    for i in range(n):
        off = [R(abs(M[i, j])) for i2 in [i] for j in range(n) if j != i]
        c.assume(R(M[i, i]) >= 1 + (z3.Sum(off) if off else 0))
