"""Shared: the range side-condition of ``np.log(np.linalg.det(M))``.

The ``det`` contract stub returns the exact determinant AND registers, for
every call, the obligation that a binary64 result exists for it: the exact
value must not underflow to 0 or overflow to inf (with a safety margin so
that the witness is robust against LAPACK's rounding).  ``slogdet`` has no
such side condition: it returns the log-determinant directly.
"""
import z3

from symx import core, symnp, stubs
from symx.stubs import R

np = symnp

UNDERFLOW = z3.Q(1, 2 ** 1080)
OVERFLOW = z3.RealVal(2 ** 1025)
LOGDET = z3.Function('LOGDET_OF', z3.RealSort(), z3.RealSort())


class DetWithRange:
    def __init__(self, obligation):
        self.obligation = obligation
        self.calls = 0

    def __call__(self, M):
        c = core.ctx()
        d = stubs.det_exact(M)
        self.calls += 1
        if isinstance(d, core.Sym):
            c.prove(self.obligation, z3.And(R(d) >= UNDERFLOW, R(d) <= OVERFLOW))
        return d


def slogdet_stub(M):
    """(sign, log|det|) with log|det| = LOG(det) for a positive determinant."""
    d = stubs.det_exact(M)
    if isinstance(d, core.Sym):
        return (1.0, core.SymReal(core.LOG(R(d))))
    import math
    return (1.0 if d > 0 else -1.0, math.log(abs(d)))


def scaled_identity(c, n, name='t'):
    """t * I_n with log(det) = n*log(t) in [-3000, 3000] and t within
    [2^-21, 2^21] (sensor variances 1e-12..1e12 => precision entries 1e-12..1e12
    would be [2^-40,2^40]; the narrower range already leaves the double range)."""
    t = c.real(name, 2.0 ** -21, 2.0 ** 21)
    M = np.zeros((n, n))
    for i in range(n):
        M._b.data[i * n + i] = t
    return t, M
