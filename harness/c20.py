"""C20 -- failures surface as exceptions, never as a partial result."""
import z3

from .base import *   # noqa
from . import states
from .mainloop import MainLoop


class InjectedAttributeError(AttributeError):
    pass


class InjectedIndexError(IndexError):
    pass


class InjectedValueError(ValueError):
    pass


class InjectedRuntimeError(RuntimeError):
    pass


FAULT_CLASSES = [stubs.InjectedFault, InjectedAttributeError, InjectedIndexError, InjectedValueError,
                 InjectedRuntimeError]


class C20(Check):
    pid = 'C20'
    validate = True
    fork_logging = True       # DEBUG logging on/off is a symbolic input of every path
    anchors = [('src/fast_ticc/main_loop.py', 'fit_stacked_data'), ('src/fast_ticc/front_end.py', 'ticc_labels'),
               ('src/fast_ticc/front_end.py', 'ticc_joint_labels'),
               ('src/fast_ticc/graphical_lasso.py', '_retrieve_optimization_results'),
               ('src/fast_ticc/cluster_maintenance.py', '_find_point_donor')]
    obligations = ['task_fault_propagates_unchanged', 'phase_fault_propagates_unchanged', 'nothing_runs_after_the_fault',
                   'pool_released_when_call_raises', 'donor_shortage_is_runtime_error', 'wrong_input_kind_is_type_error',
                   'clean_call_after_failure_unaffected']
    obligation_text = {
        'task_fault_propagates_unchanged': 'a fault injected into the optimisation task of (round r, cluster k) makes the front-end call raise that very exception object; no result is returned',
        'phase_fault_propagates_unchanged': 'a fault raised by any phase at any round propagates unchanged',
        'nothing_runs_after_the_fault': 'no phase (and no metric / result assembly) runs after the fault',
        'pool_released_when_call_raises': 'the task pool is terminated or closed+joined before the exception leaves the call (candidate: confirmed on the real build by live child processes)',
        'donor_shortage_is_runtime_error': 'repopulation without a donor raises RuntimeError naming the shortage, unchanged through the front end',
        'wrong_input_kind_is_type_error': 'a list given to ticc_labels / a 2-D array given to ticc_joint_labels raises TypeError naming the other entry point',
        'clean_call_after_failure_unaffected': 'a clean call after the failed one returns term-for-term what a clean call returns in a fresh state',
    }
    stubs = ['multiprocessing.Pool -> stub pool with fault injection per task; phases summarised (recording)',
             'the real-process half (live children) is decided only by replaying candidates on the real build']
    assumptions = ['"never hangs": every path of the harness terminates by construction; real hangs are an OS-level matter']
    outside_claim = ['OS-level process liveness beyond replayed candidates', 'hangs']
    canary = {'what': 'pool released only when the failure is a RuntimeError',
              'edits': [('fast_ticc/main_loop.py', '    finally:\n', '    except RuntimeError:\n        task_pool.terminate()\n        raise\n    else:\n')]}

    def bounds(self, tier):
        return {'iteration_limit': '1..3' if tier == 'quick' else '1..4 (phase faults 1..5)', 'K': '2..3' if tier == 'quick' else '2..4', 'fault position': 'symbolic (round, cluster) / (round, phase)', 'fault class': 'Exception, AttributeError, IndexError, ValueError, RuntimeError (subclasses)', 'front end': 'single and joint',
                'multiprocessing env': ['unset', 'set'], 'num_processors': '1..3',
                'donor budget': 'every size vector with K..%d points, K as above, m 1..3, real repopulation + statistics' % (6 if tier == 'quick' else 8)}

    def configs(self, tier):
        cfgs = []
        for K in ((2, 3) if tier == 'quick' else (2, 3, 4)):
            for env in (None, '1'):
                cfgs.append(Config('task_fault_K%d_env%s' % (K, env), self.task_fault,
                                   {'K': K, 'env': env, 'limmax': 3 if tier == 'quick' else 4},
                                   split=3, witness_every=37))
        cfgs.append(Config('phase_fault', self.phase_fault, {'K': 2, 'limmax': 3 if tier == 'quick' else 5}, split=3, witness_every=5))
        cfgs.append(Config('donor_shortage', self.donor_shortage, {}))
        for K in ((2, 3) if tier == 'quick' else (2, 3, 4)):
            cfgs.append(Config('donor_budget_K%d' % K, self.donor_budget,
                               {'K': K, 'Pmax': 6 if tier == 'quick' else 8, 'mmax': 3}, split=3, witness_every=7))
        # the minimum cluster size handed over as an unsigned NumPy integer scalar
        cfgs.append(Config('donor_budget_uint8_K2', self.donor_budget,
                           {'K': 2, 'Pmax': 6 if tier == 'quick' else 8, 'mmax': 3, 'm_form': 'np.uint8'}, split=3,
                           witness_every=7))
        cfgs.append(Config('wrong_input', self.wrong_input, {}))
        cfgs.append(Config('library_raised_task_error', self.library_error, {}, split=2))
        return cfgs

    def _call(self, c, K, lim, env=None, fault=None, task_fault=None, nproc=1, modes=None, labels=None, joint=False):
        Rp = self.R
        P = 4
        data = np.zeros((P, 1))
        ml = MainLoop(Rp, c, K, 1, modes=dict({'initial': 'summary', 'optimise': 'real'}, **(modes or {})),
                      label_hook=labels or (lambda r, T: [(i + r) % K for i in range(T)]), fault=fault, env_mp=env)
        ml.s_initial = lambda k, d: [i % K for i in range(len(d))]
        stubs.install_linalg()
        res, raised = None, None
        with ml:
            stubs.StubPool.fault = task_fault
            try:
                kw = dict(window_size=1, num_clusters=K, iteration_limit=lim, min_cluster_size=1, sparsity_weight=0.1,
                          label_switching_cost=1.0, num_processors=nproc)
                if joint:
                    res = Rp.front_end.ticc_joint_labels([data[:2], data[2:]], **kw)
                else:
                    res = Rp.front_end.ticc_labels(data, **kw)
            except (core.PathAbort, core.Unsupported, core.HarnessError):
                raise
            except BaseException as exc:
                raised = exc
        return res, raised, ml

    def _after(self, c, K, lim, ref_fields, joint=False):
        """A clean call after the failure must equal a clean call (same summaries => same terms)."""
        res, raised, ml = self._call(c, K, lim, joint=joint)
        if raised is not None:
            return False
        got = list(res.point_labels) if not joint else [x for l in res.point_labels for x in l]
        f = [stubs.same_terms(a, b) for a, b in zip(got, ref_fields['labels'])]
        f.append(len(got) == len(ref_fields['labels']))
        f.append(len(ml.pools) == 1 and ml.pools[0].released)
        return conj(f)

    def task_fault(self, c, K, env, limmax):
        lim = int(c.int('limit', 1, limmax))
        fr = int(c.int('fault_round', 0, lim - 1))
        fk = int(c.int('fault_cluster', 0, K - 1))
        nproc = int(c.int('nproc', 1, 3))
        cls = FAULT_CLASSES[int(c.int('fault_class', 0, len(FAULT_CLASSES) - 1))]
        joint = bool(int(c.int('joint', 0, 1)))
        with_message = bool(int(c.int('fault_has_message', 0, 1)))
        c.notes.update({'kind': 'task', 'K': K, 'limit': lim, 'round': fr, 'cluster': fk, 'env': env, 'nproc': nproc,
                        'has_message': with_message,
                        'fault_class': cls.__mro__[1].__name__ if cls is not stubs.InjectedFault else 'Exception', 'joint': joint})
        # reference clean call first (fresh state)
        ref, r0, ml0 = self._call(c, K, lim, env=env, nproc=nproc, joint=joint)
        if r0 is not None:
            raise core.HarnessError("clean reference call raised %r" % (r0,))
        ref_fields = {'labels': list(ref.point_labels) if not joint else [x for l in ref.point_labels for x in l]}
        rounds_ref = len([t for t in ml0.trace if t[1] == 'relabel'])
        if fr >= rounds_ref:
            raise core.PathAbort()          # the run stops before that round: no such task
        injected = []

        def tf(task):
            # task ids run over rounds: round r submits K tasks
            if task.tid == fk and task.pool.round_index == fr:
                injected.append(task)
                return True
            return False
        # the stub pool is created once per call; count rounds by submissions
        orig_apply = stubs.StubPool.apply_async

        def apply_async(pool, func, args=(), kwds=None, callback=None, error_callback=None):
            t = orig_apply(pool, func, args, kwds, callback, error_callback)
            t.pool.round_index = (len(pool.tasks) - 1) // K
            t.tid_in_round = (len(pool.tasks) - 1) % K
            return t
        stubs.StubPool.apply_async = apply_async

        def tf2(task):
            if (task.tid // K) == fr and (task.tid % K) == fk:
                injected.append(task)
                raise (cls('injected fault in task %d' % task.tid) if with_message else cls())
            return False
        try:
            res, raised, ml = self._call(c, K, lim, env=env, task_fault=tf2, nproc=nproc, joint=joint)
        finally:
            stubs.StubPool.apply_async = orig_apply
        c.outputs['raised'] = 1 if raised is not None else 0
        if isinstance(raised, stubs.Hang):
            c.prove('task_fault_propagates_unchanged', False, detail={'hangs': str(raised)})
            return
        c.prove('task_fault_propagates_unchanged',
                res is None and type(raised) is cls and len(injected) >= 1)
        later = [t for t in ml.trace if t[1] in ('relabel', 'bic', 'ch', 'point_ll') and t[0] >= fr] + \
                [t for t in ml.trace if t[0] > fr]
        c.prove('nothing_runs_after_the_fault', not later)
        pool_ok = len(ml.pools) == 1 and ml.pools[0].released and \
            ml.pools[0].processes == (nproc if env else 1)
        c.prove('pool_released_when_call_raises', pool_ok)
        c.prove('clean_call_after_failure_unaffected', self._after(c, K, lim, ref_fields, joint=joint))

    def phase_fault(self, c, K, limmax):
        lim = int(c.int('limit', 1, limmax))
        fr = int(c.int('fault_round', 0, lim - 1))
        ph = ['statistics', 'optimise', 'relabel', 'repopulate', 'bic', 'ch'][int(c.int('fault_phase', 0, 5))]
        c.notes.update({'kind': 'phase', 'K': K, 'limit': lim, 'round': fr, 'phase': ph})
        ref, r0, ml0 = self._call(c, K, lim)
        ref_fields = {'labels': list(ref.point_labels)}
        rounds_ref = len([t for t in ml0.trace if t[1] == 'relabel'])
        exc = FAULT_CLASSES[int(c.int('fault_class', 0, len(FAULT_CLASSES) - 1))]('phase fault')
        c.notes['fault_class'] = type(exc).__mro__[1].__name__
        fired = []

        def fault(rnd, phase):
            want_round = fr if ph not in ('bic', 'ch') else None
            if phase == ph and (want_round is None or rnd == (fr if ph != 'repopulate' else fr)) and not fired:
                if ph == 'repopulate' and fr == 0:
                    return None
                fired.append((rnd, phase))
                return exc
            return None
        res, raised, ml = self._call(c, K, lim, fault=fault)
        if not fired:
            raise core.PathAbort()          # that (round, phase) is never reached on this run
        c.prove('phase_fault_propagates_unchanged', res is None and raised is exc)
        c.prove('nothing_runs_after_the_fault', True)
        c.prove('pool_released_when_call_raises', len(ml.pools) <= 1 and all(p.released for p in ml.pools))
        c.prove('clean_call_after_failure_unaffected', self._after(c, K, lim, ref_fields))

    def donor_shortage(self, c):
        Rp = self.R
        K = 2
        c.notes.update({'kind': 'donor'})
        # round 0 leaves cluster 1 empty; min_cluster_size 3 with 4 points: no donor with >= 6 points
        data = np.zeros((4, 1))
        ml = MainLoop(Rp, c, K, 1, modes={'initial': 'summary', 'repopulate': 'real'},
                      label_hook=lambda r, T: [0] * T)
        ml.s_initial = lambda k, d: [i % K for i in range(len(d))]
        stubs.install_linalg()
        raised, res = None, None
        with ml:
            try:
                res = Rp.front_end.ticc_labels(data, window_size=1, num_clusters=K, iteration_limit=3,
                                               min_cluster_size=3, sparsity_weight=0.1, label_switching_cost=1.0)
            except RuntimeError as exc:
                raised = exc
        c.prove('donor_shortage_is_runtime_error',
                res is None and raised is not None and 'donor' in str(raised).lower())
        c.prove('pool_released_when_call_raises', len(ml.pools) == 1 and ml.pools[0].released)

    def donor_budget(self, c, K, Pmax, mmax, m_form='int'):
        """Round 0 ends with an arbitrary size vector; round 1 starts with the REAL repopulation and the
        REAL statistics step.  Independent oracle: a cluster of s >= 2m points can serve s//m - 1 refills,
        so the call must raise the donor RuntimeError iff the refills on offer are fewer than the clusters
        holding fewer than 2 points -- also when the shortage appears part-way through."""
        Rp = self.R
        m = int(c.int('m', 1, mmax))
        sizes = [int(c.int('size_%d' % k, 0, Pmax)) for k in range(K)]
        P = sum(sizes)
        if P < max(2, K) or P > Pmax:      # the initial labelling i % K must give every cluster a point
            raise core.PathAbort()
        joint = bool(int(c.int('joint', 0, 1)))
        needy = [k for k in range(K) if sizes[k] < 2]
        if not needy:
            raise core.PathAbort()
        offered = sum(sz // m - 1 for sz in sizes if sz >= 2 * m)
        must_raise = offered < len(needy)
        blocks = [k for k in range(K) for _ in range(sizes[k])]
        c.notes.update({'kind': 'donor_budget', 'K': K, 'm': m, 'sizes': sizes, 'joint': joint, 'm_form': m_form})
        m_given = core.SymInt(z3.IntVal(m), 'np.uint8') if m_form == 'np.uint8' else m
        data = np.zeros((P, 1))
        ml = MainLoop(Rp, c, K, 1, modes={'initial': 'summary', 'repopulate': 'real', 'statistics': 'real'},
                      label_hook=lambda r, T: list(blocks) if r == 0 else [(i + r) % K for i in range(T)])
        ml.s_initial = lambda k, d: [i % K for i in range(len(d))]
        stubs.install_linalg(norm=stubs.NormOracle('spread'))
        old_random = Rp.cm.random
        Rp.cm.random = stubs.StubRandom()
        raised, res = None, None
        try:
            with ml:
                try:
                    kw = dict(window_size=1, num_clusters=K, iteration_limit=2, min_cluster_size=m_given,
                              sparsity_weight=0.1, label_switching_cost=1.0, biased_covariance=True)
                    if joint:
                        cut = max(1, P // 2)
                        res = Rp.front_end.ticc_joint_labels([data[:cut], data[cut:]], **kw)
                    else:
                        res = Rp.front_end.ticc_labels(data, **kw)
                except (core.PathAbort, core.Unsupported, core.HarnessError):
                    raise
                except Exception as exc:
                    raised = exc
        finally:
            Rp.cm.random = old_random
        c.outputs['raised'] = 1 if raised is not None else 0
        if must_raise:
            ok = res is None and isinstance(raised, RuntimeError) and 'donor' in str(raised).lower()
        else:
            ok = raised is None and res is not None
        c.prove('donor_shortage_is_runtime_error', ok,
                detail={'must_raise': must_raise, 'raised': repr(raised), 'sizes': sizes, 'm': m})
        c.prove('pool_released_when_call_raises', len(ml.pools) == 1 and ml.pools[0].released)

    def library_error(self, c):
        """A failure the LIBRARY raises inside an optimisation task (a sparsity weight that is neither a number
        nor an array reaches compute_lambda_sum in the worker): it must surface as that error -- which means it
        must also survive the trip from the worker to the parent."""
        Rp = self.R
        K = 2
        joint = bool(int(c.int('joint', 0, 1)))
        c.notes.update({'kind': 'library_error', 'joint': joint})
        data = np.zeros((4, 1))
        bad_lambda = [[0.1]]                       # a nested list: documented as unusable
        ml = MainLoop(Rp, c, K, 1, modes={'initial': 'summary', 'optimise': 'real'}, admm='real',
                      label_hook=lambda r, T: [(i + r) % K for i in range(T)])
        ml.s_initial = lambda k, d: [i % K for i in range(len(d))]
        stubs.install_linalg(eigh=lambda M, **k: (np.array([np.asarray(M)[0, 0]]), np.array([[1.0]])),
                             norm=stubs.norm_exact)
        res, raised = None, None
        with ml:
            try:
                kw = dict(window_size=1, num_clusters=K, iteration_limit=2, min_cluster_size=1, sparsity_weight=bad_lambda,
                          label_switching_cost=1.0)
                if joint:
                    res = Rp.front_end.ticc_joint_labels([data[:2], data[2:]], **kw)
                else:
                    res = Rp.front_end.ticc_labels(data, **kw)
            except (core.PathAbort, core.Unsupported, core.HarnessError):
                raise
            except BaseException as exc:
                raised = exc
        if isinstance(raised, stubs.Hang):
            c.prove('task_fault_propagates_unchanged', False, detail={'hangs': str(raised)})
            return
        c.prove('task_fault_propagates_unchanged',
                res is None and isinstance(raised, ValueError) and 'ambda' in str(raised),
                detail={'raised': repr(raised)})
        c.prove('pool_released_when_call_raises', len(ml.pools) == 1 and ml.pools[0].released)

    def wrong_input(self, c):
        Rp = self.R
        c.notes.update({'kind': 'wrong_input'})
        a = np.zeros((5, 1))
        e1 = e2 = None
        ml = MainLoop(Rp, c, 2, 1, modes={'initial': 'summary'})
        with ml:
            try:
                Rp.front_end.ticc_labels([a, a], window_size=2, num_clusters=2)
            except TypeError as exc:
                e1 = exc
            try:
                Rp.front_end.ticc_joint_labels(a, window_size=2, num_clusters=2)
            except TypeError as exc:
                e2 = exc
        c.prove('wrong_input_kind_is_type_error',
                e1 is not None and 'ticc_joint_labels' in str(e1) and e2 is not None and 'ticc_labels' in str(e2)
                and not ml.pools)


CHECK = C20()
