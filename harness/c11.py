"""C11 -- compressed-matrix and Toeplitz-class index maps are exact bijections."""
import z3

from .base import *   # noqa


def rank_spec(r, c, n):
    """Row-major rank of (r,c) in the upper triangle of an n x n matrix
    (independent closed form, integer arithmetic only): rows 0..r-1 hold
    n, n-1, ... entries."""
    r, c = I(r), I(c)
    n = I(n) if not isinstance(n, int) else n
    return (r * (2 * n - r + 1)) / 2 + (c - r)      # z3 integer division; numerator is even


class C11(Check):
    pid = 'C11'
    validate = True
    fork_logging = True       # DEBUG logging on/off is a symbolic input of every path
    anchors = [('src/fast_ticc/matrix_compression.py', 'compress_matrix'),
               ('src/fast_ticc/matrix_compression.py', 'reinflate_matrix'),
               ('src/fast_ticc/matrix_compression.py', '_full_matrix_size'),
               ('src/fast_ticc/matrix_compression.py', '_upper_to_full'),
               ('src/fast_ticc/matrix_compression.py', '_uncompress_upper_triangle'),
               ('src/fast_ticc/admm/unique_values.py', '_compressed_index'),
               ('src/fast_ticc/admm/unique_values.py', '_block_start_coordinates'),
               ('src/fast_ticc/admm/unique_values.py', '_unique_variable_locations'),
               ('src/fast_ticc/admm/unique_values.py', 'locations_compressed'),
               ('src/fast_ticc/admm/unique_values.py', 'locations_index_slices')]
    obligations = ['reinflate_of_compress_is_identity', 'compress_of_reinflate_is_identity',
                   'compress_copies_bit_for_bit', 'earlier_results_survive_later_calls', 'index_base', 'index_step_in_row', 'index_step_next_row',
                   'index_in_range', 'index_error_iff_below_diagonal', 'index_matches_triu_position',
                   'class_positions_valid', 'class_covers_position', 'compressed_form_names_same_positions',
                   'slices_form_names_same_positions', 'cached_equals_uncached', 'index_independent_of_earlier_sizes']
    obligation_text = {
        'reinflate_of_compress_is_identity': 'for symbolic symmetric M (n x n): reinflate(compress(M)) == M entrywise, result symmetric',
        'compress_of_reinflate_is_identity': 'for symbolic v of length n(n+1)/2: compress(reinflate(v)) == v, reinflate(v) symmetric with (i,j) = v[rank(min,max)]',
        'compress_copies_bit_for_bit': 'compress on opaque 64-bit payloads is a pure copy of the upper triangle in row-major order',
        'index_base': '_compressed_index(0,0,n) == 0 for all n>=1',
        'index_step_in_row': '_compressed_index(r,c+1,n) == _compressed_index(r,c,n)+1 for all 0<=r<=c<c+1<n',
        'index_step_next_row': '_compressed_index(r+1,r+1,n) == _compressed_index(r,n-1,n)+1 for all r+1<n',
        'index_in_range': '0 <= _compressed_index(r,c,n) < n(n+1)/2 and equals the closed-form rank',
        'index_error_iff_below_diagonal': 'IndexError raised iff c < r',
        'index_matches_triu_position': 'triu_indices(n)[_compressed_index(r,c,n)] == (r,c) for symbolic r<=c<n',
        'class_positions_valid': 'class (b,r,c): exactly W-b positions, pairwise distinct, all in the upper triangle, each decodes back to (b,r,c)',
        'class_covers_position': 'every (R,C) with R<=C<NW lies in the class with its canonical id, which is a valid class',
        'compressed_form_names_same_positions': 'locations_compressed == closed-form rank of each position, in order',
        'slices_form_names_same_positions': 'locations_index_slices == unzip of the position list',
        'index_independent_of_earlier_sizes': 'the index of (r,c) in an n x n matrix equals its rank whatever sizes were asked about earlier in the same process (larger first, smaller first)',
        'cached_equals_uncached': 'functools.cache wrappers return values equal to their __wrapped__ bodies',
    }
    stubs = ['numba absent']
    assumptions = ['n(n+1) < 2^53 so that the float division in _size_including_this_row is exact '
                   '(n <= 10^6 in the lemma configuration)',
                   'REAL arithmetic for (U + U^T) - diag(U)']
    outside_claim = ['matrix sizes beyond the bounds in evidence.bounds (the closed-form index lemma has no size '
                     'bound other than the exactness side condition)']
    canary = {'what': 'every Toeplitz class silently loses its first position',
              'edits': [('fast_ticc/admm/unique_values.py', 'for i in range(num_occurrences):',
                         'for i in range(1, num_occurrences):')]}

    def _sizes(self, tier):
        return [1, 2, 3, 4, 5, 6, 8, 12] if tier == 'quick' else list(range(1, 151))

    def _nw(self, tier):
        if tier == 'quick':
            return [(N, W) for N in range(1, 4) for W in range(1, 5)]
        return [(N, W) for N in range(1, 11) for W in range(1, 15)]

    def bounds(self, tier):
        return {'compress/reinflate n': self._sizes(tier), 'index lemma n': '1..10^6 (symbolic)',
                'triu position n': [1, 2, 3, 5, 8] if tier == 'quick' else list(range(1, 25)),
                'class maps (N,W)': 'N in 1..3, W in 1..4' if tier == 'quick' else 'N in 1..10, W in 1..14 (all 140)'}

    def configs(self, tier):
        cfgs = []
        for n in self._sizes(tier):
            cfgs.append(Config('roundtrip_n%d' % n, self.roundtrip, {'n': n}))
        cfgs.append(Config('index_lemma', self.index_lemma, {}))
        for n in ([1, 2, 3, 5, 8] if tier == 'quick' else range(1, 25)):
            cfgs.append(Config('index_triu_n%d' % n, self.index_triu, {'n': n}, witness_every=3))
        for (n1, n2) in ([(6, 3), (3, 6), (8, 2)] if tier == 'quick' else [(6, 3), (3, 6), (8, 2), (40, 12), (12, 40), (14, 2)]):
            cfgs.append(Config('index_history_%d_then_%d' % (n1, n2), self.index_history, {'n1': n1, 'n2': n2}))
        for (N, W) in self._nw(tier):
            cfgs.append(Config('classes_N%d_W%d' % (N, W), self.classes, {'N': N, 'W': W}, max_fanout=256,
                               witness_every=5))
            cfgs.append(Config('cover_N%d_W%d' % (N, W), self.cover, {'N': N, 'W': W}, max_fanout=256))
        return cfgs

    # ---- 1. compression round trips
    def roundtrip(self, c, n):
        mc = self.R.mc
        M = stubs.sym_symmetric(c, 'm', n)
        snapM = stubs.snapshot(M)
        v = mc.compress_matrix(M)
        back = mc.reinflate_matrix(v)
        f = [isinstance(back, np.ndarray) and back.shape == (n, n), stubs.unchanged(snapM, M)]
        if f[0]:
            for i in range(n):
                for j in range(n):
                    f.append(stubs.same_terms(back[i, j], M[i, j]))
        c.prove('reinflate_of_compress_is_identity', conj(f))
        L = n * (n + 1) // 2
        vec = stubs.sym_array(c, 'v', (L,))
        full = mc.reinflate_matrix(vec)
        again = mc.compress_matrix(full)
        g = [full.shape == (n, n), again.shape == (L,)]
        if all(g):
            k = 0
            for i in range(n):
                for j in range(i, n):
                    g.append(stubs.same_terms(full[i, j], vec[k]))
                    g.append(stubs.same_terms(full[j, i], vec[k]))
                    g.append(stubs.same_terms(again[k], vec[k]))
                    k += 1
        c.prove('compress_of_reinflate_is_identity', conj(g))
        # results handed out earlier must survive later calls of the same size (no shared output buffer)
        e = [isinstance(v, np.ndarray) and v.shape == (L,), v._b is not again._b]
        if e[0]:
            k = 0
            for i in range(n):
                for j in range(i, n):
                    e.append(stubs.same_terms(v[k], M[i, j]))
                    k += 1
        c.prove('earlier_results_survive_later_calls', conj(e))
        if n <= 24:
            B = stubs.sym_symmetric(c, 'p', n, kind='bits')
            vb = mc.compress_matrix(B)
            h = [vb.shape == (L,)]
            if h[0]:
                k = 0
                for i in range(n):
                    for j in range(i, n):
                        h.append(stubs.same_terms(vb[k], B[i, j]))
                        k += 1
            c.prove('compress_copies_bit_for_bit', conj(h))
        else:
            c.prove('compress_copies_bit_for_bit', True)

    # ---- 2. closed-form compressed index, no bound on n beyond exactness
    def index_lemma(self, c):
        uv = self.R.uv
        f = getattr(uv._compressed_index, '__wrapped__', uv._compressed_index)
        n = c.int('n', 1, 10 ** 6)
        r = c.int('r', 0)
        col = c.int('c', 0)
        c.assume(z3.And(I(r) < I(n), I(col) < I(n)))
        try:
            idx = f(r, col, n)
            raised = False
        except IndexError:
            raised = True
        below = bool(col < r)        # forks (already decided inside f on the same condition)
        c.prove('index_error_iff_below_diagonal', raised == below)
        if raised:
            return
        total = (I(n) * (I(n) + 1)) / 2
        c.prove('index_in_range', z3.And(I(idx) >= 0, I(idx) < total, I(idx) == rank_spec(r, col, n)))
        c.prove('index_base', I(f(0, 0, n)) == 0)
        if col + 1 < n:
            c.prove('index_step_in_row', I(f(r, col + 1, n)) == I(idx) + 1)
        else:
            c.prove('index_step_in_row', True)
        if r + 1 < n:
            c.prove('index_step_next_row', I(f(r + 1, r + 1, n)) == I(f(r, n - 1, n)) + 1)
        else:
            c.prove('index_step_next_row', True)

    def index_triu(self, c, n):
        uv, mc = self.R.uv, self.R.mc
        r = c.int('r', 0, n - 1)
        col = c.int('c', 0, n - 1)
        c.assume(I(r) <= I(col))
        idx = uv._compressed_index.__wrapped__(r, col, n)
        c.notes.update({'kind': 'index', 'n': n})
        c.outputs['index'] = idx
        rows, cols = mc._upper_triangle_indices.__wrapped__(n)
        rows, cols = list(rows), list(cols)
        L = n * (n + 1) // 2
        f = [len(rows) == L, len(cols) == L]
        if all(f):
            f.append(z3.And(I(idx) >= 0, I(idx) < L))
            f.append(I(select(rows, idx)) == I(r))
            f.append(I(select(cols, idx)) == I(col))
        c.prove('index_matches_triu_position', conj(f))

    def index_history(self, c, n1, n2):
        uv = self.R.uv
        # earlier traffic: the whole upper triangle of an n1 x n1 matrix through the cached entry point
        for r0 in range(n1):
            for c0 in range(r0, n1):
                uv._compressed_index(r0, c0, n1)
        r = c.int('r', 0, n2 - 1)
        col = c.int('c', 0, n2 - 1)
        c.assume(I(r) <= I(col))
        c.notes.update({'kind': 'history', 'n1': n1, 'n2': n2})
        ok, idx = guarded(c, 'index_independent_of_earlier_sizes', uv._compressed_index.__wrapped__, r, col, n2)
        if not ok:
            return
        ok, idx2 = guarded(c, 'index_independent_of_earlier_sizes', uv._compressed_index, int(r), int(col), n2)
        if not ok:
            return
        c.prove('index_independent_of_earlier_sizes', z3.And(I(idx) == rank_spec(r, col, n2), I(idx2) == rank_spec(r, col, n2)))

    # ---- 3. Toeplitz classes
    def classes(self, c, N, W):
        uv = self.R.uv
        n = N * W
        b = c.int('b', 0, W - 1)
        r = c.int('r', 0, N - 1)
        col = c.int('c', 0, N - 1)
        c.assume(z3.Implies(I(b) == 0, I(r) <= I(col)))
        ok, pos = guarded(c, 'class_positions_valid', uv._unique_variable_locations, b, r, col, N, W)
        if not ok:
            return
        pos = list(pos)
        c.notes.update({'kind': 'classes', 'N': N, 'W': W})
        c.outputs['positions'] = [[p_[0], p_[1]] for p_ in pos]
        f = [I(len(pos)) == W - I(b)]
        for (Rr, Cc) in pos:
            f.append(z3.And(I(Rr) >= 0, I(Rr) <= I(Cc), I(Cc) < n))
            f.append(I(Cc) / N - I(Rr) / N == I(b))
            f.append(I(Rr) % N == I(r))
            f.append(I(Cc) % N == I(col))
        for i in range(len(pos)):
            for j in range(i + 1, len(pos)):
                f.append(z3.Or(I(pos[i][0]) != I(pos[j][0]), I(pos[i][1]) != I(pos[j][1])))
        c.prove('class_positions_valid', conj(f))
        # compressed and slice forms (uncached bodies, then cached wrappers)
        comp = uv.locations_compressed.__wrapped__(b, r, col, N, W)
        g = [len(comp) == len(pos)]
        if g[0]:
            for k, (Rr, Cc) in zip(comp, pos):
                g.append(I(k) == rank_spec(Rr, Cc, n))
        c.prove('compressed_form_names_same_positions', conj(g))
        sl = uv.locations_index_slices.__wrapped__(b, r, col, N, W)
        h = [isinstance(sl, tuple) and len(sl) == 2 and len(sl[0]) == len(pos) and len(sl[1]) == len(pos)]
        if h[0]:
            for rr, cc, (Rr, Cc) in zip(sl[0], sl[1], pos):
                h.append(z3.And(I(rr) == I(Rr), I(cc) == I(Cc)))
        c.prove('slices_form_names_same_positions', conj(h))
        comp2 = uv.locations_compressed(b, r, col, N, W)
        comp3 = uv.locations_compressed(int(b), int(r), int(col), N, W)     # second call: served from the cache
        sl2 = uv.locations_index_slices(b, r, col, N, W)
        e = [len(comp2) == len(comp), len(comp3) == len(comp), len(sl2[0]) == len(sl[0])]
        if all(e):
            e += [I(x) == I(y) for x, y in zip(comp2, comp)]
            e += [I(x) == I(y) for x, y in zip(comp3, comp)]
            e += [I(x) == I(y) for x, y in zip(sl2[0], sl[0])]
            e += [I(x) == I(y) for x, y in zip(sl2[1], sl[1])]
        c.prove('cached_equals_uncached', conj(e))

    def cover(self, c, N, W):
        uv = self.R.uv
        n = N * W
        Rr = c.int('R', 0, n - 1)
        Cc = c.int('C', 0, n - 1)
        c.assume(I(Rr) <= I(Cc))
        b = core.mk_int(I(Cc) / N - I(Rr) / N)
        r = core.mk_int(I(Rr) % N)
        col = core.mk_int(I(Cc) % N)
        valid = z3.And(I(b) >= 0, I(b) < W, I(r) >= 0, I(r) < N, I(col) >= 0, I(col) < N,
                       z3.Implies(I(b) == 0, I(r) <= I(col)))
        if not c.prove('class_covers_position', valid):
            return
        ok, pos = guarded(c, 'class_covers_position', uv._unique_variable_locations, b, r, col, N, W)
        if not ok:
            return
        c.prove('class_covers_position',
                disj([z3.And(I(p[0]) == I(Rr), I(p[1]) == I(Cc)) for p in pos]))


CHECK = C11()
