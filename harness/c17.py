"""C17 -- Calinski-Harabasz index matches its definition."""
import z3

from .base import *   # noqa
from . import states
from symx import runner


def ch_terms(data, labels, K, n, centre):
    """(B, Wd) from the definition; ``centre`` is a list of n terms."""
    P = len(labels)
    B, Wd = [], []
    for k in range(K):
        mem = [i for i, l in enumerate(labels) if l == k]
        mu = [rsum([R(data[i, j]) for i in mem]) / len(mem) for j in range(n)]
        B.append(len(mem) * rsum([(mu[j] - centre[j]) * (mu[j] - centre[j]) for j in range(n)]))
        for i in mem:
            Wd.append(rsum([(R(data[i, j]) - mu[j]) * (R(data[i, j]) - mu[j]) for j in range(n)]))
    return rsum(B), rsum(Wd)


class C17(Check):
    pid = 'C17'
    validate = True
    fork_logging = True       # DEBUG logging on/off is a symbolic input of every path
    anchors = [('src/fast_ticc/cluster_metrics.py', 'calinski_harabasz_index')]
    obligations = ['ch_matches_definition']
    obligation_text = {
        'ch_matches_definition': 'result * Wd * (K-1) == B * (T-K) with B, Wd from the definition (per-column centroid); cross-multiplied rational identity',
        'ch_deviation_model': '(only on paths where the definition fails, known finding C17-scalar-centre) the code equals the definition with the centroid replaced by the scalar mean of all entries',
        'ch_translation_invariant': 'adding a constant to one sensor column does not change the index',
    }
    stubs = ['cluster means produced by the real statistics step (update_all_cluster_statistics, biased estimator)']
    assumptions = ['every cluster non-empty, K>=2, T>K, within-dispersion Wd > 0 (the index is undefined otherwise)',
                   'REAL arithmetic']
    outside_claim = ['T, n beyond bounds; rounding']
    canary = {'what': 'degrees-of-freedom factor uses K instead of K-1',
              'edits': [('fast_ticc/cluster_metrics.py', '         (len(model.clusters) - 1)\n', '         (len(model.clusters))\n')]}

    def bounds(self, tier):
        return {'(T,K,n)': self._shapes(tier), 'labels': 'symbolic, every cluster non-empty', 'data': 'symbolic reals'}

    def _shapes(self, tier):
        if tier == 'quick':
            return [(3, 2, 1), (3, 2, 2), (4, 2, 2)]
        return [(3, 2, 1), (3, 2, 2), (4, 2, 2), (4, 3, 2), (5, 2, 2), (4, 2, 3), (5, 3, 2), (6, 2, 2), (6, 3, 2), (5, 2, 3),
                (7, 2, 2), (7, 3, 2), (6, 2, 3), (6, 4, 2), (8, 2, 1), (5, 4, 3)]

    def configs(self, tier):
        cfgs = [Config('ch_T%d_K%d_n%d' % s, self.ch, {'T': s[0], 'K': s[1], 'n': s[2]}, witness_every=1,
                       prove_timeout_ms=60000, nonlinear=True) for s in self._shapes(tier)]
        # the same windows handed over as an INTEGER array (count data): the index is still a real number
        for s in ([(3, 2, 1), (4, 2, 1)] if tier == 'quick' else [(3, 2, 1), (4, 2, 1), (5, 2, 1), (4, 3, 1), (4, 2, 2)]):
            cfgs.append(Config('ch_int_data_T%d_K%d_n%d' % s, self.ch, {'T': s[0], 'K': s[1], 'n': s[2], 'data_kind': 'int'},
                               witness_every=3, prove_timeout_ms=60000, nonlinear=True, split=3))
        return cfgs

    def ch(self, c, T, K, n, data_kind='real'):
        Rp = self.R
        if data_kind == 'int':
            data = stubs.sym_array(c, 'x', (T, n), kind='int', lo=-3, hi=3, writeable=False)
            c.notes['data_dtype'] = 'int64'
        else:
            data = stubs.sym_array(c, 'x', (T, n), writeable=False)
            c.notes.pop('data_dtype', None)
        labels = [c.int('l_%d' % i, 0, K - 1) for i in range(T)]
        args = states.user_args(Rp, K, biased=True)
        st = states.fitted_state(Rp, c, K, n, labels, data, args, fit=False)
        labs = states.labels_of(st)
        if any(labs.count(k) == 0 for k in range(K)):
            raise core.PathAbort()
        st = Rp.cm.update_all_cluster_statistics(st, data)
        centroid = [rsum([R(data[i, j]) for i in range(T)]) / T for j in range(n)]
        B, Wd = ch_terms(data, labs, K, n, centroid)
        c.assume(Wd > 0)
        ok, res = guarded(c, 'ch_matches_definition', Rp.metrics.calinski_harabasz_index, data, st)
        if not ok:
            return
        c.notes.update({'T': T, 'K': K, 'n': n, 'labels': labs})
        c.outputs['ch'] = res
        good = c.prove('ch_matches_definition', R(res) * Wd * (K - 1) == B * (T - K))
        if good is False:
            scalar = rsum([R(data[i, j]) for i in range(T) for j in range(n)]) / (T * n)
            B2, _ = ch_terms(data, labs, K, n, [scalar] * n)
            c.prove('ch_deviation_model', R(res) * Wd * (K - 1) == B2 * (T - K))


CHECK = C17()
