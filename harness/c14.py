"""C14 -- results are reproducible and independent of process scheduling (Python level)."""
import os

import z3

from .base import *   # noqa
from . import states
from .mainloop import MainLoop
from .c02 import soft_threshold_merged

FIELDS = ('bayesian_information_criterion', 'calinski_harabasz_index', 'label_assignment_cost',
          'overall_log_likelihood', 'overall_log_likelihood_mean', 'overall_log_likelihood_median',
          'num_clusters', 'window_size')


def results_equal(a, b):
    f = [len(a.point_labels) == len(b.point_labels), len(a.markov_random_fields) == len(b.markov_random_fields),
         len(a.all_log_likelihood) == len(b.all_log_likelihood)]
    if not all(f):
        return False
    f += [stubs.same_terms(x, y) for x, y in zip(a.point_labels, b.point_labels)]
    f += [stubs.same_terms(x, y) for x, y in zip(a.all_log_likelihood, b.all_log_likelihood)]
    for m1, m2 in zip(a.markov_random_fields, b.markov_random_fields):
        f.append(m1.shape == m2.shape)
        f += [stubs.same_terms(x, y) for x, y in zip(m1._flat(), m2._flat())]
    for fld in FIELDS:
        f.append(stubs.same_terms(getattr(a, fld), getattr(b, fld)))
    for fld in ('cluster_log_likelihood_mean', 'cluster_log_likelihood_median'):
        f += [stubs.same_terms(x, y) for x, y in zip(np.asarray(getattr(a, fld))._flat(), np.asarray(getattr(b, fld))._flat())]
    return conj(f)


class KeyedADMM:
    """The optimiser as an uninterpreted function of its arguments: the same
    (covariance, lambda, W, N) always yields the same (symbolic) theta."""

    def __init__(self, c, Rp):
        self.c, self.Rp, self.table, self.calls = c, Rp, {}, []

    def __call__(self, cov, lam, W, N, **kw):
        n = int(W) * int(N)
        L = n * (n + 1) // 2
        def show(v):
            try:
                return str(z3.simplify(R(v)))
            except Exception:
                return repr(v)
        # every argument the optimiser is given is part of the key -- its keyword settings too
        key = tuple(str(z3.simplify(R(v))) for v in np.asarray(cov)._flat()) + (str(lam), int(W), int(N)) + \
            tuple(sorted((k, show(v)) for k, v in kw.items()))
        if key not in self.table:
            k = len(self.table)
            self.table[key] = np.ndarray._new([self.c.real('admm%d_%d' % (k, i)) for i in range(L)], (L,), np.float64)
        self.calls.append(key)
        return self.Rp.results.ADMMResult(theta=self.table[key].copy())


class C14(Check):
    pid = 'C14'
    validate = True
    fork_logging = True       # DEBUG logging on/off is a symbolic input of every path
    anchors = [('src/fast_ticc/main_loop.py', 'fit_stacked_data'), ('src/fast_ticc/main_loop.py', '_init_task_pool'),
               ('src/fast_ticc/graphical_lasso.py', 'optimize_markov_random_fields'),
               ('src/fast_ticc/graphical_lasso.py', '_retrieve_optimization_results'),
               ('src/fast_ticc/admm/unique_values.py', 'locations_compressed'),
               ('src/fast_ticc/admm/solver.py', 'admm_update_z')]
    obligations = ['repeated_run_with_repopulation_equal', 'result_independent_of_completion_order', 'result_independent_of_pool_size_and_env',
                   'pool_size_follows_env_and_argument', 'two_runs_equal', 'result_independent_of_earlier_calls',
                   'cached_lists_not_mutated']
    obligation_text = {
        'result_independent_of_completion_order': 'for every permutation in which the optimisation tasks complete, the complete result is term-equal to the in-order run',
        'result_independent_of_pool_size_and_env': 'num_processors in 1..8 and CUPCAKE_ENABLE_MULTIPROCESSING set/unset give term-equal results',
        'pool_size_follows_env_and_argument': 'the pool is created with processes = num_processors iff the variable is set and non-empty, else 1',
        'repeated_run_with_repopulation_equal': 'a run that goes through a repopulation event, repeated in the same process from equal random-generator states (after another run that also repopulated), returns term-equal results',
        'two_runs_equal': 'two runs from equal RNG-stub values are term-equal',
        'result_independent_of_earlier_calls': 'Z-update results after arbitrary earlier calls with other (N,W) (populated functools caches) equal those after a cache clear',
        'cached_lists_not_mutated': 'lists handed out by the cached index helpers are still equal to a fresh computation after the run',
    }
    stubs = ['optimiser = uninterpreted function of its arguments; phases summarised (named symbols per round/cluster), so two '
             'runs are comparable term for term', 'stub pool: solver-chosen completion permutation; full Pool API surface']
    assumptions = ['Python-level independence only']
    outside_claim = ['bit-identity across real worker processes / BLAS thread configurations', 'OS scheduling', 'hash randomisation']
    canary = {'what': 'results gathered in completion order through an apply_async callback',
              'edits': [('fast_ticc/graphical_lasso.py', "    return pool.apply_async(admm.admm_optimize_theta,\n                            admm_args,\n                            admm_kwargs)",
                         "    return pool.apply_async(admm.admm_optimize_theta,\n                            admm_args,\n                            admm_kwargs, callback=_FINISHED.append)"),
                        ('fast_ticc/graphical_lasso.py', "        admm_result = optimization_task.get()\n", "        optimization_task.wait()\n        admm_result = _FINISHED.pop(0)\n"),
                        ('fast_ticc/graphical_lasso.py', "LOGGER = logging.getLogger(__name__)\n", "LOGGER = logging.getLogger(__name__)\n_FINISHED = []\n")]}

    def bounds(self, tier):
        return {'K': '2..3' if tier == 'quick' else '2..6', 'iteration_limit': '1..2' if tier == 'quick' else '1..3 (K=4,5: 1..2, K=6: 1)', 'num_processors': '1..8', 'env': ['unset', "''", "'1'"],
                'cache orders': '(N,W) pairs from {(1,2),(2,1),(2,2)} in every order'}

    def configs(self, tier):
        cfgs = []
        for K in ((2, 3) if tier == 'quick' else (2, 3, 4, 5, 6)):
            for lim in ((1, 2) if tier == 'quick' or K in (4, 5) else (1,) if K == 6 else (1, 2, 3)):
                cfgs.append(Config('schedule_K%d_lim%d' % (K, lim), self.schedule, {'K': K, 'lim': lim}, split=3,
                                   witness_every=211))
        for K in ((2, 5) if tier == 'quick' else (2, 3, 4, 5, 6)):
            # K well above the smallest pool sizes: 1 < num_processors < K is where dispatch order can matter
            cfgs.append(Config('pool_size_K%d' % K, self.pool_size, {'K': K}, split=2, witness_every=5 if K == 2 else 0))
        cfgs.append(Config('repopulating_runs', self.repopulating_runs, {}, split=3))
        cfgs.append(Config('cache_order', self.cache_order, {}, nonlinear=True, witness_every=2))
        cfgs.append(Config('hyperparameter_history', self.hyper_history, {}, split=3, witness_every=3))
        return cfgs

    def _run(self, c, K, lim, schedule, env=None, nproc=1, admm=None, repop=None, labels=None, P=3, data=None, eps=0):
        Rp = self.R
        modes = {'initial': 'summary', 'optimise': 'real'}
        if repop:
            modes['repopulate'] = 'real'
        if data is not None:
            modes['statistics'] = 'real'      # the fitted statistics then depend on which points moved
        else:
            data = np.zeros((P, 1))
        ml = MainLoop(Rp, c, K, 1, modes=modes, schedule=schedule, env_mp=env,
                      label_hook=labels or (lambda r, T: [(i + r) % K for i in range(T)]), admm='none')
        ml.s_initial = lambda k, d: [i % K for i in range(len(d))]
        ml.fresh = 0
        stubs.install_linalg(det=lambda M: core.SymReal(z3.Real('det_of_%s' % abs(hash(str(M._flat()))))),
                             slogdet=lambda M: (1.0, core.SymReal(z3.Real('ld_of_%s' % abs(hash(str(M._flat())))))),
                             inv=lambda M: M)
        old = Rp.admm.admm_optimize_theta
        Rp.admm.admm_optimize_theta = admm
        old_random = Rp.cm.random
        if repop:
            Rp.cm.random = repop
        try:
            with ml:
                res = Rp.front_end.ticc_labels(data, window_size=1, num_clusters=K, iteration_limit=lim,
                                               min_cluster_size=1, sparsity_weight=0.1, label_switching_cost=1.0,
                                               num_processors=nproc, biased_covariance=True,
                                               min_meaningful_covariance=eps)
        finally:
            Rp.admm.admm_optimize_theta = old
            Rp.cm.random = old_random
        return res, ml

    def schedule(self, c, K, lim):
        admm = KeyedADMM(c, self.R)
        c.notes.update({'kind': 'schedule', 'K': K, 'limit': lim})
        ref, ml0 = self._run(c, K, lim, 'fifo', admm=admm)
        ok, out = guarded(c, 'result_independent_of_completion_order', self._run, c, K, lim, 'symbolic', None, 1, admm)
        if not ok:
            return
        res, ml = out
        c.notes['order'] = list(ml.pools[0].completion_order) if ml.pools else None
        c.prove('result_independent_of_completion_order', results_equal(ref, res))
        again, _ = self._run(c, K, lim, 'fifo', admm=admm)
        c.prove('two_runs_equal', results_equal(ref, again))

    def repopulating_runs(self, c):
        """Round 0 relabels everything into cluster 0, so round 1 starts with a repopulation event.
        The global generator is a stub whose state the harness resets before every run ("equal states
        of the random generators"); an earlier run with another size also repopulates."""
        K, lim, P = 2, 2, 4
        admm = KeyedADMM(c, self.R)
        draws = [c.int('draw_%d' % j, 0, P - 1) for j in range(2)]

        class SeededStub:
            def __init__(self):
                self.n = 0

            def seed(self):
                self.n = 0

            def sample(self, population, k):
                pop = list(population)
                out, used = [], set()
                for j in range(int(k)):
                    i = int(draws[(self.n + j) % len(draws)]) % len(pop)
                    while i in used:
                        i = (i + 1) % len(pop)
                    used.add(i)
                    out.append(pop[i])
                self.n += int(k)
                return out
        rnd = SeededStub()
        labels = lambda r, T: [0] * T if r == 0 else [i % K for i in range(T)]
        stubs_norm = stubs.NormOracle('spread')
        c.notes.update({'kind': 'repopulating'})
        data = stubs.sym_array(c, 'x', (P, 1), writeable=False)
        data2 = stubs.sym_array(c, 'y', (P + 1, 1), writeable=False)
        rnd.seed()
        ref, ml0 = self._run(c, K, lim, 'fifo', admm=admm, repop=rnd, labels=labels, P=P, data=data)
        rnd.seed()
        other, _ = self._run(c, K, lim, 'fifo', admm=admm, repop=rnd, labels=labels, P=P + 1, data=data2)
        rnd.seed()
        ok, out = guarded(c, 'repeated_run_with_repopulation_equal', self._run, c, K, lim, 'fifo', None, 1, admm,
                          rnd, labels, P, data)
        if not ok:
            return
        again, ml2 = out
        repop_events = [t for t in ml2.trace if t[1] == 'repopulate' and t[3] is not t[2]]
        c.prove('repeated_run_with_repopulation_equal', conj([results_equal(ref, again), len(repop_events) >= 1]))

    def pool_size(self, c, K):
        admm = KeyedADMM(c, self.R)
        nproc = c.int('nproc', 1, 8)
        env = [None, '', '1'][int(c.int('env', 0, 2))]
        c.notes.update({'kind': 'pool_size', 'K': K, 'env': env, 'nproc': int(nproc)})
        ref, ml0 = self._run(c, K, 1, 'fifo', admm=admm)
        res, ml = self._run(c, K, 1, 'fifo', env=env, nproc=nproc, admm=admm)
        c.prove('result_independent_of_pool_size_and_env', results_equal(ref, res))
        want = nproc if env else 1
        c.prove('pool_size_follows_env_and_argument',
                conj([len(ml.pools) == 1, stubs.same_terms(ml.pools[0].processes, want)]))

    def hyper_history(self, c):
        """An earlier fit with OTHER hyper-parameters (an arbitrary covariance floor, another size) in the same
        process, then the fit under test: its result must be the one a fresh process gives."""
        from symx import loader
        admm = KeyedADMM(c, self.R)
        eps_a = c.real('eps_a', 0)
        K = 2
        c.notes.update({'kind': 'hyper_history'})
        ok, out = guarded(c, 'result_independent_of_earlier_calls', self._run, c, K, 1, 'fifo', None, 1, admm,
                          None, None, 4, None, eps_a)
        if not ok:
            return
        eps_b = c.real('eps_b', 0)
        ok, out = guarded(c, 'result_independent_of_earlier_calls', self._run, c, K, 1, 'fifo', None, 1, admm,
                          None, None, 3, None, eps_b)
        if not ok:
            return
        after_history = out[0]
        loader.clear_caches()
        fresh, _ = self._run(c, K, 1, 'fifo', admm=admm, eps=eps_b)
        c.prove('result_independent_of_earlier_calls', results_equal(after_history, fresh))

    def cache_order(self, c):
        from symx import loader
        Rp = self.R
        shapes = [(1, 2), (2, 1), (2, 2)]
        order = [int(c.int('o%d' % i, 0, 2)) for i in range(3)]
        c.assume(z3.Distinct(*[z3.IntVal(o) for o in order]) if len(set(order)) == 3 else z3.BoolVal(False))
        c.notes.update({'kind': 'cache', 'order': order})
        rho = c.real('rho')
        c.assume(R(rho) > 0)
        lam = c.real('lam', 0)
        real_st = Rp.solver.soft_threshold_prox
        Rp.solver.soft_threshold_prox = soft_threshold_merged
        try:
            outs = {}
            inputs = {}
            for idx in order:
                N, W = shapes[idx]
                n = N * W
                L = n * (n + 1) // 2
                x = stubs.sym_array(c, 'x%d' % idx, (L,))
                u = stubs.sym_array(c, 'u%d' % idx, (L,))
                inputs[idx] = (x, u)
                args = Rp.arguments.ADMMArguments(window_size=W, num_data_series=N, rho=rho, rho_update=None,
                                                  sparsity_weight=lam, absolute_tolerance=1e-6,
                                                  relative_tolerance=1e-6, max_iterations=1, verbose=False)
                ok, outs[idx] = guarded(c, 'result_independent_of_earlier_calls', Rp.solver.admm_update_z, args, u, x)
                if not ok:
                    return
            # the index lists handed out after the whole history ...
            uv = Rp.uv

            def all_lists(N, W):
                return [list(uv.locations_compressed(b, r, col, N, W))
                        for b in range(W) for r in range(N) for col in range(r if b == 0 else 0, N)]
            after_history = {idx: all_lists(*shapes[idx]) for idx in order}
            f, g = [], []
            for idx in order:
                loader.clear_caches()          # ... must be what a fresh import computes
                N, W = shapes[idx]
                f.append(after_history[idx] == all_lists(N, W))
                x, u = inputs[idx]
                args = Rp.arguments.ADMMArguments(window_size=W, num_data_series=N, rho=rho, rho_update=None,
                                                  sparsity_weight=lam, absolute_tolerance=1e-6,
                                                  relative_tolerance=1e-6, max_iterations=1, verbose=False)
                fresh = Rp.solver.admm_update_z(args, u, x)
                g += [R(a) == R(b_) for a, b_ in zip(fresh._flat(), outs[idx]._flat())]
            c.prove('cached_lists_not_mutated', all(f))
            c.prove('result_independent_of_earlier_calls', conj(g))
        finally:
            Rp.solver.soft_threshold_prox = real_st


CHECK = C14()
