"""C07 -- jointly labelled series are independent across series boundaries."""
import z3

from .base import *   # noqa
from . import states, logdet
from .mainloop import MainLoop
from .c01 import path_cost
from .c06 import data_pattern, mean_pattern


def boundary_pairs(lens):
    """indices i such that the pair (i, i+1) straddles a series boundary."""
    out, acc = set(), 0
    for L in lens[:-1]:
        acc += L
        out.add(acc - 1)
    return out


class C07(Check):
    pid = 'C07'
    validate = True
    fork_logging = True       # DEBUG logging on/off is a symbolic input of every path
    anchors = [('src/fast_ticc/data_preparation.py', 'label_switching_cost_template'),
               ('src/fast_ticc/front_end.py', 'ticc_joint_labels'), ('src/fast_ticc/front_end.py', 'ticc_labels'),
               ('src/fast_ticc/cluster_label_assignment.py', 'predict_cluster_labels'),
               ('src/fast_ticc/cluster_label_assignment.py', 'assign_point_cluster_labels'),
               ('src/fast_ticc/data_preparation.py', 'stack_training_data_multiple_series')]
    obligations = ['template_zero_exactly_on_boundary_pairs', 'masked_cost_reaches_labelling_step',
                   'joint_labelling_minimises_within_series_cost', 'no_window_mixes_two_series',
                   'joint_of_one_series_equals_single', 'every_series_reaches_the_labelling_step']
    obligation_text = {
        'template_zero_exactly_on_boundary_pairs': 'template[i]==0 iff the pair (i,i+1) straddles a series boundary, 1 otherwise, for i < total-1 (the last entry is never read by the kernel)',
        'masked_cost_reaches_labelling_step': 'the switching cost observed at the labelling kernel is the per-pair vector beta*template',
        'joint_labelling_minimises_within_series_cost': 'returned joint labelling minimises, and the reported cost equals, assignment cost + switching cost over within-series pairs only (rival labelling symbolic)',
        'every_series_reaches_the_labelling_step': 'the cost table labelled jointly has one row per window of EVERY input series (W=1: sum of the lengths, also when a series is exactly W long) and one label list per series, of the series\' length, comes back',
        'no_window_mixes_two_series': 'every row of the joint stacking equals a row of exactly one series stacked alone',
        'joint_of_one_series_equals_single': 'ticc_joint_labels([X]) and ticc_labels(X) hand fit_stacked_data equal data and equal arguments up to the form of beta, and return equal labels/cost',
    }
    stubs = ['fitting phases summarised (arbitrary diagonally-dominant MRF and ln det symbol per cluster; fixed distinct data/mean patterns)',
             'relabel phase and kernel real; stub pool; metrics summarised']
    assumptions = ['REAL arithmetic', 'beta >= 0 scalar (as the property states for the joint front end)']
    outside_claim = ['more than 4 series / lengths beyond bounds for the end-to-end obligations (the mask helper is covered to 6 series of 6)']
    canary = {'what': 'zero placed one position late when a series has a single stacked point',
              'edits': [('fast_ticc/data_preparation.py', '    template = np.ones(shape=(num_points_total,))',
                         '    template = np.ones(shape=(num_points_total,))\n    endpoints = [e + (1 if stacked_series_lengths[0] == 1 and e + 1 < num_points_total else 0) for e in endpoints]')]}

    def bounds(self, tier):
        if tier == 'quick':
            return {'template': '1..4 series, each length 1..4 (symbolic)', 'end to end': 'series lengths (1,2),(2,1),(2,2); K=2; W=1; beta symbolic',
                    'W>1 stacking': 'W<=3, 2..3 series'}
        return {'template': '1..6 series, each length 1..6 (symbolic; 5,6 series: lengths 1..3)', 'end to end': 'lengths (1,2),(2,1),(2,2),(1,1,2),(2,1,1),(3,2); K=2..3; beta symbolic',
                'W>1 stacking': 'W<=4, 2..4 series'}

    def configs(self, tier):
        q = tier == 'quick'
        cfgs = []
        for S in ([1, 2, 3, 4] if q else [1, 2, 3, 4, 5, 6]):
            cfgs.append(Config('template_S%d' % S, self.template, {'S': S, 'Lmax': (4 if q else 6) if S <= 4 else 3},
                               split=2, witness_every=7, max_fanout=128))
        for lens in ([(1, 2), (2, 1), (2, 2)] if q else [(1, 2), (2, 1), (2, 2), (1, 1, 2), (2, 1, 1), (3, 2)]):
            for K in ([2] if q or len(lens) > 2 or sum(lens) > 4 else [2, 3]):
                cfgs.append(Config('joint_%s_K%d' % ('_'.join(map(str, lens)), K), self.joint,
                                   {'lens': list(lens), 'K': K}, split=4, robust=True, witness_every=9))
        for S in ([2, 3] if q else [2, 3, 4]):
            cfgs.append(Config('windows_S%d' % S, self.windows, {'S': S, 'Wmax': 3 if q else 4}, split=2))
        for (T, W) in ([(2, 1), (3, 1), (2, 2), (2, 3)] if q else [(2, 1), (3, 1), (4, 1), (2, 2), (3, 2), (2, 3), (2, 4)]):
            cfgs.append(Config('one_series_T%d_W%d' % (T, W), self.one_series, {'T': T, 'K': 2, 'W': W}, split=4,
                               robust=True))
        return cfgs

    def template(self, c, S, Lmax):
        dp = self.R.data_preparation
        lens = [c.int('n_%d' % s, 1, Lmax) for s in range(S)]
        given = list(lens)
        ok, tpl = guarded(c, 'template_zero_exactly_on_boundary_pairs', dp.label_switching_cost_template, given)
        if not ok:
            return
        L = [int(x) for x in lens]
        total = sum(L)
        c.notes.update({'lens': L})
        c.outputs['template'] = tpl
        f = [isinstance(tpl, np.ndarray) and tpl.shape == (total,)]
        if f[0]:
            bp = boundary_pairs(L)
            for i in range(total - 1):
                f.append(stubs.same_terms(tpl[i], 0.0 if i in bp else 1.0))
        c.prove('template_zero_exactly_on_boundary_pairs', conj(f))

    def _joint_run(self, c, series, K, beta, n=1, W=1):
        Rp = self.R
        ld = logdet.OpaqueLogDet(c)
        stubs.install_linalg(det=ld.det, slogdet=ld.slogdet)
        ml = MainLoop(Rp, c, K, n, modes={'relabel': 'real', 'point_ll': 'real', 'initial': 'summary'},
                      spd='dominant', concrete_mean=mean_pattern)
        ml.s_initial = lambda k, d: [i % K for i in range(len(d))]
        with ml:
            ok, res = guarded(c, 'masked_cost_reaches_labelling_step', Rp.front_end.ticc_joint_labels, list(series),
                              window_size=W, num_clusters=K, iteration_limit=1, min_cluster_size=1,
                              sparsity_weight=0.1, label_switching_cost=beta)
        return ok, res, ml

    def joint(self, c, lens, K):
        T = sum(lens)
        series = [stubs.const_array([[data_pattern(i, 0, s)] for i in range(L)]) for s, L in enumerate(lens)]
        beta = c.real('b', 0)
        c.notes.update({'lens': lens, 'K': K, 'T': T})
        ok, res, ml = self._joint_run(c, series, K, beta)
        if not ok:
            return
        bp = boundary_pairs(lens)
        want = [0 if i in bp else beta for i in range(T)]
        if not ml.kernel_calls:
            c.prove('masked_cost_reaches_labelling_step', False, detail={'kernel_calls': 0})
            return
        cost_tab, seen_beta, (path, reported) = ml.kernel_calls[-1]
        pl = res.point_labels
        g = [np.asarray(cost_tab).shape[0] == T, isinstance(pl, list) and len(pl) == len(lens)]
        if all(g):
            g += [len(lab) == L for lab, L in zip(pl, lens)]
        if not c.prove('every_series_reaches_the_labelling_step', all(g),
                       detail={'rows': int(np.asarray(cost_tab).shape[0]), 'T': T}):
            return
        f = [isinstance(seen_beta, np.ndarray) and seen_beta.shape == (T,)]
        if f[0]:
            for i in range(T - 1):
                f.append(R(seen_beta[i]) == R(want[i]))
        c.outputs['labels'] = [int(p) for p in path]
        c.prove('masked_cost_reaches_labelling_step', conj(f))
        # composition: minimum over within-series pairs only, and that is what is reported
        q = [c.int('q_%d' % i, 0, K - 1) for i in range(T)]
        mine = path_cost(cost_tab, want, [int(p) for p in path], T, K)
        rival = path_cost(cost_tab, want, q, T, K)
        c.prove('joint_labelling_minimises_within_series_cost',
                z3.And(rival >= mine, R(res.label_assignment_cost) == mine))
        # call history: the mask helper asked again, after a joint run over the same lengths, must
        # still return the mask (a run must not leave anything behind that changes it)
        c.notes['after_joint_run'] = True
        ok, tpl = guarded(c, 'template_zero_exactly_on_boundary_pairs',
                          self.R.data_preparation.label_switching_cost_template, list(lens))
        if ok:
            f = [isinstance(tpl, np.ndarray) and tpl.shape == (T,)]
            if f[0]:
                for i in range(T - 1):
                    f.append(stubs.same_terms(tpl[i], 0.0 if i in bp else 1.0))
            c.prove('template_zero_exactly_on_boundary_pairs', conj(f))
        c.notes.pop('after_joint_run', None)

    def windows(self, c, S, Wmax):
        dp = self.R.data_preparation
        W = int(c.int('W', 1, Wmax))
        N = 1
        lens = [int(c.int('L_%d' % s, W, W + 1)) for s in range(S)]
        series = [stubs.sym_array(c, 'd%d' % s, (lens[s], N), kind='bits') for s in range(S)]
        c.notes.update({'W': W, 'lens': lens})
        ok, out = guarded(c, 'no_window_mixes_two_series', dp.stack_training_data_multiple_series, list(series), W)
        if not ok:
            return
        f = [out.shape[0] == sum(L - W + 1 for L in lens)]
        if f[0]:
            off = 0
            for s in range(S):
                alone = dp.stack_training_data(series[s], W)
                for i in range(lens[s] - W + 1):
                    for j in range(N * W):
                        f.append(stubs.same_terms(out[off + i, j], alone[i, j]))
                off += lens[s] - W + 1
        c.prove('no_window_mixes_two_series', conj(f))

    def one_series(self, c, T, K, W=1):
        """T stacked windows of width W (the series has T+W-1 rows)."""
        Rp = self.R
        X = stubs.const_array([[data_pattern(i, 0)] for i in range(T + W - 1)])
        beta = c.real('b', 0)
        c.notes.update({'lens': [T], 'K': K, 'T': T, 'W': W, 'one_series': True})
        ld = logdet.OpaqueLogDet(c)
        seen = []
        real_fit = Rp.main_loop.fit_stacked_data

        def spy(user_args, stacked):
            seen.append((user_args, stacked))
            return real_fit(user_args, stacked)
        out = []
        for which in ('joint', 'single'):
            stubs.install_linalg(det=ld.det, slogdet=ld.slogdet)
            ml = MainLoop(Rp, c, K, W, modes={'relabel': 'real', 'point_ll': 'real', 'initial': 'summary'},
                          spd='dominant', concrete_mean=mean_pattern)
            ml.s_initial = lambda k, d: [i % K for i in range(len(d))]
            Rp.main_loop.fit_stacked_data = spy
            try:
                with ml:
                    kw = dict(window_size=W, num_clusters=K, iteration_limit=1, min_cluster_size=1,
                              sparsity_weight=0.1, label_switching_cost=beta)
                    if which == 'joint':
                        ok, res = guarded(c, 'joint_of_one_series_equals_single', Rp.front_end.ticc_joint_labels, [X], **kw)
                    else:
                        ok, res = guarded(c, 'joint_of_one_series_equals_single', Rp.front_end.ticc_labels, X, **kw)
            finally:
                Rp.main_loop.fit_stacked_data = real_fit
            if not ok:
                return
            out.append(res)
        jres, sres = out
        f = [len(seen) == 2, isinstance(jres.point_labels, list) and len(jres.point_labels) == 1]
        if all(f):
            (ja, jd), (sa, sd) = seen
            f.append(jd.shape == sd.shape)
            if f[-1]:
                f += [stubs.same_terms(a, b) for a, b in zip(jd._flat(), sd._flat())]
            for fld in ('sparsity_weight', 'iteration_limit', 'min_cluster_size', 'min_meaningful_covariance',
                        'num_clusters', 'num_processors', 'window_size', 'biased_covariance'):
                f.append(stubs.same_terms(getattr(ja, fld), getattr(sa, fld)))
            jb = ja.label_switching_cost
            if isinstance(jb, np.ndarray):
                f += [R(v) == R(beta) for v in jb._flat()[:T - 1]]
            else:
                f.append(R(jb) == R(beta))
            f.append(len(jres.point_labels[0]) == len(sres.point_labels))
            if f[-1]:
                f += [stubs.same_terms(a, b) for a, b in zip(jres.point_labels[0], sres.point_labels)]
            f.append(R(jres.label_assignment_cost) == R(sres.label_assignment_cost))
            f.append(R(jres.overall_log_likelihood) == R(sres.overall_log_likelihood))
        c.prove('joint_of_one_series_equals_single', conj(f))


CHECK = C07()
