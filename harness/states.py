"""Builders for arbitrary (symbolic) model states."""
import z3

from symx import core, symnp, stubs
from symx.stubs import R, I

np = symnp


def user_args(Rp, K, W=1, lam=0.1, beta=1.0, m=1, eps=0, limit=2, biased=False, nproc=1):
    return Rp.arguments.UserArguments(
        sparsity_weight=lam, iteration_limit=limit, label_switching_cost=beta, min_cluster_size=m,
        min_meaningful_covariance=eps, num_clusters=K, num_processors=nproc, window_size=W,
        biased_covariance=biased)


def fitted_state(Rp, c, K, n, labels, data, args, prefix='st', fit=True, spd=False):
    """A state satisfying the representation invariant with arbitrary fitted
    statistics: symbolic mean, empirical covariance, MRF, computed covariance."""
    st = Rp.model_state.ModelState.empty_model(args, data)
    st.point_labels = labels
    if fit:
        for k, cl in enumerate(st.clusters):
            cl.stacked_data_mean = stubs.sym_array(c, '%s_mu%d' % (prefix, k), (n,), owner='lib')
            cl.empirical_covariance = stubs.sym_symmetric(c, '%s_S%d' % (prefix, k), n, owner='lib')
            cl.train_inverse = stubs.sym_symmetric(c, '%s_Th%d' % (prefix, k), n, owner='lib')
            cl.computed_covariance = stubs.sym_symmetric(c, '%s_Cv%d' % (prefix, k), n, owner='lib')
            if spd:
                assume_spd(c, cl.train_inverse)
    st.label_assignment_cost = c.real('%s_cost' % prefix)
    return st


def assume_spd(c, M):
    """Sylvester: leading principal minors positive (n <= 3)."""
    n = M.shape[0]
    rows = M.tolist()
    for k in range(1, n + 1):
        sub = [r[:k] for r in rows[:k]]
        d = stubs.det_exact(np.array(sub))
        c.assume(R(d) > 0)


def labels_of(st):
    return [int(l) for l in st.point_labels]


def invariant(st, K, P=None):
    """Concrete (per path) check of the representation invariant."""
    if st.clusters is None or len(st.clusters) != K:
        return False
    labs = st.point_labels
    if labs is None:
        return all(list(cl.member_points) == [] for cl in st.clusters)
    labs = [int(l) for l in labs]
    if P is not None and len(labs) != P:
        return False
    for k in range(K):
        if list(st.clusters[k].member_points) != [i for i, l in enumerate(labs) if l == k]:
            return False
    return True


FIELDS = ('stacked_data_mean', 'empirical_covariance', 'train_inverse', 'computed_covariance')


def freeze(st):
    """Snapshot of everything a phase must not alter in the state it was given."""
    return {
        'labels_obj': st.point_labels,
        'labels': None if st.point_labels is None else list(st.point_labels),
        'clusters': list(st.clusters),
        'members': [list(cl.member_points) for cl in st.clusters],
        'field_objs': [[getattr(cl, f) for f in FIELDS] for cl in st.clusters],
        'field_snaps': [[stubs.snapshot(getattr(cl, f)) for f in FIELDS] for cl in st.clusters],
        'cost': st.label_assignment_cost,
        'arguments': st.arguments,
    }


def intact(st, fz):
    """Formula: state st still equals its frozen snapshot (identity and value)."""
    f = [st.point_labels is fz['labels_obj'] or
         (st.point_labels is not None and fz['labels'] is not None and len(st.point_labels) == len(fz['labels'])),
         len(st.clusters) == len(fz['clusters']), st.arguments is fz['arguments']]
    if not all(f):
        return False
    if fz['labels'] is not None:
        for a, b in zip(st.point_labels, fz['labels']):
            f.append(stubs.same_terms(a, b))
    for k, cl in enumerate(st.clusters):
        f.append(cl is fz['clusters'][k])
        f.append(list(cl.member_points) == fz['members'][k])
        for j, name in enumerate(FIELDS):
            f.append(getattr(cl, name) is fz['field_objs'][k][j])
            f.append(stubs.unchanged(fz['field_snaps'][k][j], getattr(cl, name)))
    f.append(stubs.same_terms(st.label_assignment_cost, fz['cost']))
    return stubs.conj(f)
