"""C16 -- Bayesian information criterion matches its definition."""
import math

import z3

from .base import *   # noqa
from . import states, logdet
from .mainloop import MainLoop


def runs_of(labels):
    out = []
    last = None
    for l in labels:
        if l != last:
            out.append(l)
            last = l
    return out


class C16(Check):
    pid = 'C16'
    validate = True
    fork_logging = True       # DEBUG logging on/off is a symbolic input of every path
    anchors = [('src/fast_ticc/cluster_metrics.py', 'bayesian_information_criterion')]
    obligations = ['bic_matches_definition', 'bic_logdet_argument_in_double_range', 'reported_bic_uses_fitted_model']
    obligation_text = {
        'bic_matches_definition': 'result == Pcnt*ln(T) - 2*sum_k(LOG(det Theta_k) - tr(Theta_k S_k)), Pcnt = sum over maximal label runs of #{|Theta_run[i,j]| > 2e-5}',
        'reported_bic_uses_fitted_model': 'through the real main loop (run stopped by the iteration limit, final labels differing from the fitted ones): result.bayesian_information_criterion is the definition evaluated with the MRFs and the empirical covariances of the LAST FIT and the labels of the last relabel',
        'bic_logdet_argument_in_double_range': 'whenever the code obtains ln det through det(), the exact determinant of Theta = t*I_n (n up to 200, |ln det| <= 3000) must be a representable double (else the reported value is +-inf)',
    }
    stubs = ['np.linalg.det -> exact determinant (cofactor expansion n<=3; diagonal product) + range obligation',
             'np.linalg.slogdet -> (1, LOG(det))', 'np.log of a symbolic value -> uninterpreted LOG']
    assumptions = ['REAL arithmetic; LOG uninterpreted (the same log of the same argument)',
                   'MRFs positive definite (Sylvester criterion assumed on the symbolic matrices)']
    outside_claim = ['n > 3 for the formula obligation; rounding; accuracy of LAPACK det/slogdet']
    canary = {'what': 'run counting starts from label 0 instead of "no label"',
              'edits': [('fast_ticc/cluster_metrics.py', '    last_point_label = -1\n', '    last_point_label = 0\n')]}

    def bounds(self, tier):
        if tier == 'quick':
            return {'formula (T,K,n)': [(3, 2, 1), (4, 2, 2), (3, 3, 1)], 'finite': 'Theta=t*I_n, n in {1,40,100}'}
        return {'formula (T,K,n)': [(3, 2, 1), (4, 2, 2), (3, 3, 1), (5, 2, 2), (4, 3, 2), (4, 2, 3), (6, 2, 1), (6, 3, 2), (7, 2, 1), (5, 3, 3)],
                'finite': 'Theta=t*I_n, n in {1,40,100,200}'}

    def configs(self, tier):
        cfgs = []
        for (T, K, n) in self.bounds(tier)['formula (T,K,n)']:
            cfgs.append(Config('bic_T%d_K%d_n%d' % (T, K, n), self.bic, {'T': T, 'K': K, 'n': n},
                               witness_every=3, nonlinear=True, split=2))
        for n in ([1, 40, 100] if tier == 'quick' else [1, 40, 100, 200]):
            cfgs.append(Config('finite_n%d' % n, self.finite, {'n': n}))
        for lim in (1, 2):
            cfgs.append(Config('end_to_end_lim%d' % lim, self.end_to_end, {'lim': lim}, nonlinear=True))
            # one sensor, window 1: the REAL statistics step hands the criterion whatever np.cov returns
            # for a single variable (a 0-d array)
            cfgs.append(Config('end_to_end_real_statistics_lim%d' % lim, self.end_to_end, {'lim': lim, 'real_stats': True},
                               nonlinear=True))
        return cfgs

    def bic(self, c, T, K, n):
        Rp = self.R
        data = np.zeros((T, n))
        labels = [c.int('l_%d' % i, 0, K - 1) for i in range(T)]
        # the hyper-parameters travel with the model state; the criterion is a function of the labels,
        # the MRFs and the fitted covariances only, whatever their values
        args = states.user_args(Rp, K, eps=c.real('eps', 0), lam=c.real('lam', 0), beta=c.real('beta', 0))
        st = states.fitted_state(Rp, c, K, n, labels, data, args, spd=True)
        labs = states.labels_of(st)
        fz = states.freeze(st)
        stubs.install_linalg(det=stubs.det_exact, slogdet=logdet.slogdet_stub)
        c.notes.update({'T': T, 'K': K, 'n': n, 'labels': labs})
        ok, res = guarded(c, 'bic_matches_definition', Rp.metrics.bayesian_information_criterion, st)
        if not ok:
            return
        c.outputs['bic'] = None
        thr = core._const_real(2e-5)
        cnt = []
        ll = []
        for k in range(K):
            Th = st.clusters[k].train_inverse
            S = st.clusters[k].empirical_covariance
            cnt.append(z3.Sum([z3.If(z3.Or(R(Th[i, j]) > thr, R(Th[i, j]) < -thr), 1, 0)
                               for i in range(n) for j in range(n)]))
            tr = rsum([R(Th[i, j]) * R(S[j, i]) for i in range(n) for j in range(n)])
            ll.append(core.log_term(R(stubs.det_exact(Th))) - tr)
        pcnt = z3.Sum([cnt[k] for k in runs_of(labs)] + [z3.IntVal(0)])
        want = z3.ToReal(pcnt) * core._const_real(math.log(T)) - 2 * rsum(ll)
        c.prove('bic_matches_definition', z3.And(R(res) == want, states.intact(st, fz)))

    def end_to_end(self, c, lim, real_stats=False):
        Rp = self.R
        K, P, n = 2, 4, 1
        data = stubs.sym_array(c, 'x', (P, n), writeable=False)
        pats = [[0, 0, 1, 1], [0, 1, 0, 1], [1, 1, 0, 0]]
        stubs.install_linalg(det=stubs.det_exact, slogdet=logdet.slogdet_stub)
        modes = {'initial': 'summary', 'bic': 'real'}
        if real_stats:
            modes['statistics'] = 'real'
        ml = MainLoop(Rp, c, K, n, modes=modes, spd=True,
                      label_hook=lambda r, T: list(pats[(r + 1) % 3]))
        ml.s_initial = lambda k, d: list(pats[0])
        with ml:
            ok, res = guarded(c, 'reported_bic_uses_fitted_model', Rp.front_end.ticc_labels, data, window_size=1,
                              num_clusters=K, iteration_limit=lim, min_cluster_size=1, sparsity_weight=0.1,
                              label_switching_cost=1.0)
        if not ok:
            return
        c.notes.update({'kind': 'end_to_end', 'limit': lim, 'real_stats': real_stats})
        fitted = [t for t in ml.trace if t[1] == 'optimise'][-1][3]
        final = [t for t in ml.trace if t[1] == 'relabel'][-1][3]
        labs = [int(x) for x in final.point_labels]
        thr = core._const_real(2e-5)
        cnt, ll = [], []
        for k in range(K):
            Th = fitted.clusters[k].train_inverse
            S = np.asarray(fitted.clusters[k].empirical_covariance).reshape(n, n)     # np.cov: 0-d for one variable
            cnt.append(z3.Sum([z3.If(z3.Or(R(Th[i, j]) > thr, R(Th[i, j]) < -thr), 1, 0)
                               for i in range(n) for j in range(n)]))
            tr = rsum([R(Th[i, j]) * R(S[j, i]) for i in range(n) for j in range(n)])
            ll.append(core.log_term(R(stubs.det_exact(Th))) - tr)
        pcnt = z3.Sum([cnt[k] for k in runs_of(labs)] + [z3.IntVal(0)])
        want = z3.ToReal(pcnt) * core._const_real(math.log(P)) - 2 * rsum(ll)
        c.prove('reported_bic_uses_fitted_model', R(res.bayesian_information_criterion) == want)

    def finite(self, c, n):
        Rp = self.R
        K, T = 1, 2
        t, Th = logdet.scaled_identity(c, n)
        args = states.user_args(Rp, K)
        st = Rp.model_state.ModelState.empty_model(args, np.zeros((T, 1)))
        st.point_labels = [0] * T
        st.clusters[0].train_inverse = Th
        st.clusters[0].empirical_covariance = np.eye(n)
        det = logdet.DetWithRange('bic_logdet_argument_in_double_range')
        c.log_range_obligation = 'bic_logdet_argument_in_double_range'
        stubs.install_linalg(det=det, slogdet=logdet.slogdet_stub)
        c.notes.update({'n': n, 'site': 'bic'})
        ok, res = guarded(c, 'bic_logdet_argument_in_double_range', Rp.metrics.bayesian_information_criterion, st)
        if ok:
            c.prove('bic_logdet_argument_in_double_range', True)


CHECK = C16()
