"""C09 -- main loop: bounded, stops only at a fixed point, returns what it scored."""
import z3

from .base import *   # noqa
from . import states
from .mainloop import MainLoop


class C09(Check):
    pid = 'C09'
    validate = True
    fork_logging = True       # DEBUG logging on/off is a symbolic input of every path
    anchors = [('src/fast_ticc/main_loop.py', 'fit_stacked_data'), ('src/fast_ticc/main_loop.py', '_init_task_pool')]
    obligations = ['every_phase_sees_the_users_hyperparameters', 'rounds_between_one_and_limit', 'phase_order_and_dataflow', 'stops_iff_two_consecutive_rounds_agree',
                   'returns_last_round', 'metrics_on_returned_state', 'pool_created_once_and_released',
                   'nonpositive_limit_rejected']
    obligation_text = {
        'every_phase_sees_the_users_hyperparameters': 'in every round (also after a real repopulation event) the state handed to statistics / optimise / relabel carries the caller\'s hyper-parameters unchanged in value (beta, lambda, eps, m, K, W, estimator flag)',
        'rounds_between_one_and_limit': '1 <= executed rounds <= iteration_limit',
        'phase_order_and_dataflow': 'each round is [repopulate if round>0] -> statistics -> optimise -> relabel, every phase receiving the previous phase\'s output state',
        'stops_iff_two_consecutive_rounds_agree': 'the loop ends after round j < limit-1 iff the labellings of rounds j and j-1 are equal; round 0 is never compared with the initial labelling',
        'returns_last_round': 'labels, cost and MRFs of the result are those of the last relabel output state; its MRFs are the ones the last optimise phase produced',
        'metrics_on_returned_state': 'BIC, CH and the likelihood aggregation are evaluated on that same state',
        'pool_created_once_and_released': 'one pool per call; close() and join() after the loop',
        'nonpositive_limit_rejected': 'iteration_limit <= 0 raises AssertionError before any phase runs',
    }
    stubs = ['every phase replaced by a recording summary; the relabel summary returns a fresh symbolic labelling per round, '
             'so every pattern of equal/different consecutive labellings is explored', 'stub pool']
    assumptions = ['the phases complete (faults are C20)']
    outside_claim = ['iteration limits beyond the bound; the optimality of the relabel step itself is C01']
    canary = {'what': 'convergence test compares with the labelling of two rounds ago',
              'edits': [('fast_ticc/main_loop.py',
                         '        if (previous_iteration_point_labels ==\n                current_model_state.point_labels):',
                         '        older_labels = getattr(fit_stacked_data, "_older", None)\n        fit_stacked_data._older = previous_iteration_point_labels\n        if (current_iteration > 1 and older_labels ==\n                current_model_state.point_labels):')]}

    def bounds(self, tier):
        return {'iteration_limit': '-1..3' if tier == 'quick' else '-1..5', 'points': 2 if tier == 'quick' else 3, 'K': 2,
                'labellings': 'symbolic per round'}

    def configs(self, tier):
        q = tier == 'quick'
        return [Config('loop', self.loop, {'P': 2 if q else 3, 'K': 2, 'limmax': 3 if q else 5}, split=4,
                       witness_every=3),
                Config('loop_after_failed_run', self.loop, {'P': 2, 'K': 2, 'limmax': 2 if q else 3, 'after_failure': True},
                       split=4, witness_every=7),
                Config('bad_limit', self.bad_limit, {}),
                Config('with_repopulation', self.with_repopulation, {'limmax': 3}, split=3)]

    def bad_limit(self, c):
        Rp = self.R
        lim = c.int('limit', -2, 0)
        data = np.zeros((2, 1))
        args = states.user_args(Rp, 2, limit=lim)
        ml = MainLoop(Rp, c, 2, 1, modes={'initial': 'summary'})
        with ml:
            try:
                Rp.main_loop.fit_stacked_data(args, data)
                raised = None
            except AssertionError as exc:
                raised = exc
        c.notes.update({'limit': int(lim), 'bad': True})
        c.prove('nonpositive_limit_rejected', raised is not None and not ml.trace and not ml.pools)

    def with_repopulation(self, c, limmax):
        """Round 0 relabels everything into cluster 0, so round 1 starts with a REAL repopulation
        event; hyper-parameters are symbolic and pairwise distinct."""
        Rp = self.R
        K, P = 2, 4
        lim = int(c.int('limit', 2, limmax))
        lam, beta, eps = c.real('lam', 0), c.real('beta', 0), c.real('eps', 0)
        c.assume(z3.And(R(lam) != R(beta), R(lam) != R(eps), R(beta) != R(eps)))
        data = np.zeros((P, 1))
        args = Rp.arguments.UserArguments(sparsity_weight=lam, iteration_limit=lim, label_switching_cost=beta,
                                          min_cluster_size=1, min_meaningful_covariance=eps, num_clusters=K,
                                          num_processors=1, window_size=1, biased_covariance=True)
        stubs.install_linalg(norm=stubs.NormOracle('spread'))
        ml = MainLoop(Rp, c, K, 1, modes={'initial': 'summary', 'repopulate': 'real'},
                      label_hook=lambda r, T: [0] * T if r % 2 == 0 else [i % K for i in range(T)])
        ml.s_initial = lambda k, d: [i % K for i in range(len(d))]
        old_random = Rp.cm.random
        Rp.cm.random = stubs.StubRandom()
        try:
            with ml:
                ok, res = guarded(c, 'every_phase_sees_the_users_hyperparameters', Rp.main_loop.fit_stacked_data,
                                  args, data)
        finally:
            Rp.cm.random = old_random
        if not ok:
            return
        c.notes.update({'limit': lim, 'P': P, 'K': K, 'kind': 'with_repopulation'})
        f = [any(t[1] == 'repopulate' and t[3] is not t[2] for t in ml.trace)]
        for t in ml.trace:
            if t[1] in ('statistics', 'optimise', 'relabel', 'repopulate') and t[2] is not None:
                a = t[2].arguments
                f += [stubs.same_terms(a.sparsity_weight, lam), stubs.same_terms(a.label_switching_cost, beta),
                      stubs.same_terms(a.min_meaningful_covariance, eps), a.min_cluster_size == 1,
                      a.num_clusters == K, a.window_size == 1, a.biased_covariance is True,
                      a.iteration_limit == lim]
        c.prove('every_phase_sees_the_users_hyperparameters', conj(f))

    def loop(self, c, P, K, limmax, after_failure=False):
        Rp = self.R
        lim = c.int('limit', 1, limmax)
        data = np.zeros((P, 1))
        args = states.user_args(Rp, K, limit=lim)
        if after_failure:
            # call history: an earlier run in the same process died inside the loop (a fault in the
            # statistics phase of its second round, after one complete round); whatever it left
            # behind must not steer this run
            class Died(Exception):
                pass

            def fault(rnd, phase):
                return Died('earlier run dies here') if (rnd == 1 and phase == 'statistics') else None
            ml0 = MainLoop(Rp, c, K, 1, modes={'initial': 'summary'}, fault=fault)
            try:
                with ml0:
                    Rp.main_loop.fit_stacked_data(states.user_args(Rp, K, limit=3), np.zeros((P, 1)))
            except Died:
                pass
            c.notes['after_failed_run'] = True
        ml = MainLoop(Rp, c, K, 1, modes={'initial': 'summary'})
        with ml:
            ok, res = guarded(c, 'rounds_between_one_and_limit', Rp.main_loop.fit_stacked_data, args, data)
        if not ok:
            return
        L = int(lim)
        tr = ml.trace
        phases = [t[1] for t in tr]
        relabels = [t for t in tr if t[1] == 'relabel']
        rounds = len(relabels)
        labs = [[int(x) for x in t[3].point_labels] for t in relabels]
        c.notes.update({'limit': L, 'P': P, 'K': K, 'round_labels': labs,
                        'initial': [int(x) for x in tr[0][3]] if tr and tr[0][1] == 'initial' else None})
        c.outputs['rounds'] = rounds
        c.prove('rounds_between_one_and_limit', 1 <= rounds <= L)
        # expected phase sequence
        want = ['initial']
        for r in range(rounds):
            if r > 0:
                want.append('repopulate')
            want += ['statistics', 'optimise', 'relabel']
        main = [p for p in phases if p in ('initial', 'repopulate', 'statistics', 'optimise', 'relabel')]
        f = [main == want]
        if f[0]:
            seq = [t for t in tr if t[1] in ('repopulate', 'statistics', 'optimise', 'relabel')]
            for a, b in zip(seq, seq[1:]):
                f.append(b[2] is a[3])             # input of the next phase is the output of the previous one
            first = seq[0][2]
            f.append([int(x) for x in first.point_labels] == c.notes['initial'])
        c.prove('phase_order_and_dataflow', all(f))
        # stopping rule
        expect = L
        for j in range(1, L):
            if j < len(labs) and labs[j] == labs[j - 1]:
                expect = j + 1
                break
            if j >= len(labs):
                break
        c.prove('stops_iff_two_consecutive_rounds_agree', rounds == expect)
        last = relabels[-1][3]
        last_opt = [t for t in tr if t[1] == 'optimise'][-1][3]
        g = [len(res.point_labels) == P, len(res.markov_random_fields) == K]
        if all(g):
            g += [stubs.same_terms(a, b) for a, b in zip(res.point_labels, last.point_labels)]
            g.append(stubs.same_terms(res.label_assignment_cost, last.label_assignment_cost))
            for k in range(K):
                g.append(res.markov_random_fields[k] is last.clusters[k].train_inverse)
                g.append(stubs.unchanged(stubs.snapshot(last_opt.clusters[k].train_inverse),
                                         res.markov_random_fields[k]))
        c.prove('returns_last_round', conj(g))
        bic = [t for t in tr if t[1] == 'bic']
        ch = [t for t in tr if t[1] == 'ch']
        pll = [t for t in tr if t[1] == 'point_ll']
        h = [len(bic) == 1 and bic[0][2] is last, len(ch) == 1 and ch[0][2] is last,
             len(pll) == P and all(any(t[2] is cl for cl in last.clusters) for t in pll),
             phases.index('bic') > len(phases) - 3 - P if 'bic' in phases else False]
        if h[0] and h[1]:
            h.append(stubs.same_terms(res.bayesian_information_criterion, bic[0][3]))
            h.append(stubs.same_terms(res.calinski_harabasz_index, ch[0][3]))
        c.prove('metrics_on_returned_state', conj(h))
        c.prove('pool_created_once_and_released',
                len(ml.pools) == 1 and ml.pools[0].closed and ml.pools[0].joined and not ml.pools[0].terminated)


CHECK = C09()
