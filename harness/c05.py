"""C05 -- reported log-likelihoods are exact Gaussian log-densities."""
import math

import z3

from .base import *   # noqa
from . import states, logdet

LOG2PI = core._const_real(math.log(2 * math.pi))


def gauss_logpdf(x, mu, Th, logdet_term, n):
    """1/2 (ln det Theta - (x-mu)^T Theta (x-mu) - n ln 2pi) as a z3 term."""
    d = [R(x[i]) - R(mu[i]) for i in range(n)]
    quad = rsum([d[i] * R(Th[i, j]) * d[j] for i in range(n) for j in range(n)])
    return (logdet_term - quad - n * LOG2PI) / 2


TOL = z3.Q(1, 2 ** 40)


def same_density(a, b):
    """Equality up to 2^-40: the normalising constant (n/2) ln 2pi is folded by Python in binary64
    and the order in which it is folded (n*ln(2pi)/2, (n/2)*ln(2pi), ...) moves its last bit."""
    return z3.And(a - b <= TOL, b - a <= TOL)


class C05(Check):
    pid = 'C05'
    validate = True
    fork_logging = True       # DEBUG logging on/off is a symbolic input of every path
    anchors = [('src/fast_ticc/likelihood.py', 'point_log_likelihood_fast'),
               ('src/fast_ticc/likelihood.py', 'point_log_likelihood'),
               ('src/fast_ticc/likelihood.py', 'all_points_all_clusters_log_likelihood_fast'),
               ('src/fast_ticc/likelihood.py', 'all_points_all_clusters_log_likelihood')]
    obligations = ['reported_values_are_densities_under_returned_model', 'point_density_formula', 'table_entry_is_own_point_and_cluster', 'table_uses_current_mrf_mean_logdet',
                   'point_wrapper_uses_cluster_fields', 'likelihood_logdet_argument_in_double_range']
    obligation_text = {
        'point_density_formula': 'point_log_likelihood_fast == 1/2 (l - (x-mu)^T Theta (x-mu) - NW ln 2pi) for symbolic x, mu, symmetric Theta, l',
        'table_entry_is_own_point_and_cluster': 'table[p,c] is the density of data[p] under (mus[c], thetas[c], logdets[c])',
        'table_uses_current_mrf_mean_logdet': 'the public table function scores against each cluster\'s train_inverse, stacked_data_mean and the log-determinant of that same matrix (stale cached fields are not used)',
        'point_wrapper_uses_cluster_fields': 'point_log_likelihood(point, cluster) uses the cluster\'s mean, inverse_covariance, log_determinant',
        'likelihood_logdet_argument_in_double_range': 'ln det obtained through det() must have a representable determinant for Theta=t*I_n, n up to 200',
    }
    stubs = ['np.linalg.det -> exact determinant (+ range obligation in the finiteness configurations)',
             'np.linalg.slogdet -> (1, LOG(det))', 'numba absent (fallback prange = range)']
    assumptions = ['REAL arithmetic, LOG uninterpreted; ln(2 pi) is the binary64 constant the code computes']
    outside_claim = ['rounding of the quadratic form', 'Numba prange execution', 'NW > 4 for the formula obligations']
    canary = {'what': 'sign of the quadratic term flipped',
              'edits': [('fast_ticc/likelihood.py', '                 - (x_minus_mu.T @ theta_i @ x_minus_mu)', '                 + (x_minus_mu.T @ theta_i @ x_minus_mu)')]}

    def bounds(self, tier):
        if tier == 'quick':
            return {'point formula (N,W)': [(1, 1), (2, 1), (1, 2), (3, 1)], 'table': 'T<=3,K<=2,n<=2',
                    'finite': 'Theta=t*I_n n in {1,40,100}'}
        return {'point formula (N,W)': [(1, 1), (2, 1), (1, 2), (3, 1), (1, 3), (2, 2), (4, 1), (1, 4), (5, 1), (1, 5), (2, 3), (3, 2),
                                        (7, 1), (1, 7), (2, 4), (4, 2), (3, 3), (1, 9), (2, 5), (5, 2), (3, 4), (4, 3)],
                'table': 'T<=4,K<=4,n<=4', 'finite': 'Theta=t*I_n n in {1,40,100,200}'}

    def configs(self, tier):
        b = self.bounds(tier)
        cfgs = [Config('point_N%d_W%d' % nw, self.point, {'N': nw[0], 'W': nw[1]}, witness_every=1, nonlinear=True)
                for nw in b['point formula (N,W)']]
        for (T, K, N, W) in ([(2, 2, 1, 1), (3, 2, 2, 1), (2, 2, 1, 2)] if tier == 'quick' else
                             [(2, 2, 1, 1), (3, 2, 2, 1), (2, 2, 1, 2), (3, 3, 1, 2), (3, 3, 3, 1), (2, 3, 1, 3), (4, 2, 2, 2), (3, 4, 1, 2),
                              (4, 3, 3, 1), (2, 2, 1, 4)]):
            cfgs.append(Config('table_T%d_K%d_N%d_W%d' % (T, K, N, W), self.table, {'T': T, 'K': K, 'N': N, 'W': W},
                               witness_every=1, nonlinear=True))
        # integer-valued sensor data handed over as an integer array (counts): the densities are still reals
        for (T, K, N, W) in ([(2, 2, 1, 1)] if tier == 'quick' else [(2, 2, 1, 1), (3, 2, 2, 1), (2, 2, 1, 2)]):
            cfgs.append(Config('table_int_data_T%d_K%d_N%d_W%d' % (T, K, N, W), self.table,
                               {'T': T, 'K': K, 'N': N, 'W': W, 'data_kind': 'int'}, witness_every=1, nonlinear=True,
                               split=2))
        for n in ([1, 40, 100] if tier == 'quick' else [1, 40, 100, 200]):
            cfgs.append(Config('finite_n%d' % n, self.finite, {'n': n}))
        # end to end: what the front end REPORTS per point is the density under the mean and the MRF it returns
        for (T, lim) in ([(2, 1), (3, 2), (4, 1)] if tier == 'quick' else [(2, 1), (3, 1), (3, 2), (4, 1), (4, 2), (5, 1)]):
            cfgs.append(Config('reported_T%d_lim%d' % (T, lim), self.reported, {'T': T, 'K': 2, 'lim': lim},
                               split=4, robust=True, witness_every=5))
        return cfgs

    def point(self, c, N, W):
        Rp = self.R
        n = N * W
        x = stubs.sym_array(c, 'x', (n,), writeable=False)
        mu = stubs.sym_array(c, 'mu', (n,), writeable=False)
        Th = stubs.sym_symmetric(c, 'Th', n)
        Th._b.writeable = False
        ld = c.real('ld')
        ok, res = guarded(c, 'point_density_formula', Rp.likelihood.point_log_likelihood_fast, x, mu, Th, ld, W, N)
        if not ok:
            return
        c.notes.update({'N': N, 'W': W, 'kind': 'point'})
        c.outputs['ll'] = res
        c.prove('point_density_formula', same_density(R(res), gauss_logpdf(x, mu, Th, R(ld), n)))
        cl = Rp.model_state.ClusterParameters(stacked_data_mean=mu, inverse_covariance=Th, log_determinant=ld,
                                              train_inverse=np.zeros((n, n)))
        ok, res2 = guarded(c, 'point_wrapper_uses_cluster_fields', Rp.likelihood.point_log_likelihood, x, cl, W, N)
        if ok:
            c.prove('point_wrapper_uses_cluster_fields', same_density(R(res2), gauss_logpdf(x, mu, Th, R(ld), n)))

    def table(self, c, T, K, N, W, data_kind='real'):
        Rp = self.R
        n = N * W
        if data_kind == 'int':
            data = stubs.sym_array(c, 'x', (T, n), kind='int', lo=-3, hi=3, writeable=False)
            c.notes['data_dtype'] = 'int64'
        else:
            data = stubs.sym_array(c, 'x', (T, n), writeable=False)
            c.notes.pop('data_dtype', None)
        args = states.user_args(Rp, K, W=W)
        st = states.fitted_state(Rp, c, K, n, [i % K for i in range(T)], data, args, spd=(n <= 2))
        mus = np.asarray([cl.stacked_data_mean for cl in st.clusters])
        thetas = np.asarray([cl.train_inverse for cl in st.clusters])
        lds = stubs.sym_array(c, 'ld', (K,))
        ok, tab = guarded(c, 'table_entry_is_own_point_and_cluster',
                          Rp.likelihood.all_points_all_clusters_log_likelihood_fast, W, K, mus, thetas, lds, data)
        if not ok:
            return
        c.notes.update({'T': T, 'K': K, 'N': N, 'W': W, 'kind': 'table'})
        f = [isinstance(tab, np.ndarray) and tab.shape == (T, K)]
        if f[0]:
            for p in range(T):
                for k in range(K):
                    f.append(same_density(R(tab[p, k]), gauss_logpdf(data[p], st.clusters[k].stacked_data_mean,
                                                                     st.clusters[k].train_inverse, R(lds[k]), n)))
        c.prove('table_entry_is_own_point_and_cluster', conj(f))
        # public entry: stale caches must not be used
        for k, cl in enumerate(st.clusters):
            cl.inverse_covariance = stubs.sym_symmetric(c, 'stale_inv%d' % k, n, owner='lib')
            cl.log_determinant = c.real('stale_ld%d' % k)
        stubs.install_linalg(det=stubs.det_exact, slogdet=logdet.slogdet_stub)
        ok, tab2 = guarded(c, 'table_uses_current_mrf_mean_logdet',
                           Rp.likelihood.all_points_all_clusters_log_likelihood, st, data)
        if not ok:
            return
        c.outputs['table'] = tab2
        g = [isinstance(tab2, np.ndarray) and tab2.shape == (T, K)]
        if g[0]:
            for p in range(T):
                for k in range(K):
                    Th = st.clusters[k].train_inverse
                    g.append(same_density(R(tab2[p, k]), gauss_logpdf(data[p], st.clusters[k].stacked_data_mean, Th,
                                                                      core.log_term(R(stubs.det_exact(Th))), n)))
        c.prove('table_uses_current_mrf_mean_logdet', conj(g))

    def reported(self, c, T, K, lim):
        """The real front end (relabel step, kernels, per-point reader, result assembly real; fitting phases
        arbitrary diagonally-dominant MRFs): every reported per-point value is the log-density of that point
        under the mean of its cluster in the FINAL model and the MRF the call RETURNS for that cluster."""
        from . import c06
        Rp = self.R
        n = 1
        h = c06.C06()
        h.R = Rp
        data = stubs.const_array([[c06.data_pattern(i, j) for j in range(n)] for i in range(T)])
        data._b.writeable = False
        b = c.real('b', 0)
        c.notes.update({'T': T, 'K': K, 'n': n, 'form': 'scalar', 'lim': lim, 'lens': [T], 'joint': False, 'kind': 'reported'})
        call = lambda: Rp.front_end.ticc_labels(data, window_size=1, num_clusters=K, iteration_limit=lim,
                                                min_cluster_size=1, sparsity_weight=0.1, label_switching_cost=b)
        ok, res, ml = h._run(c, call, K, n, lim)
        if not ok:
            return
        labs = [int(x) for x in res.point_labels]
        c.notes['labels'] = labs
        # the final model: the output of the last phase that produced a model state
        final = [t for t in ml.trace if t[1] in ('statistics', 'optimise', 'relabel', 'repopulate')][-1][3]
        f = [len(res.all_log_likelihood) == T, len(res.markov_random_fields) == K]
        if all(f):
            order = [i for k in range(K) for i in range(T) if labs[i] == k]
            for j, i in enumerate(order):
                k = labs[i]
                Th = res.markov_random_fields[k]
                want = gauss_logpdf(data[i], final.clusters[k].stacked_data_mean, Th, R(h.ld.logdet(Th)), n)
                f.append(R(res.all_log_likelihood[j]) == want)
        c.prove('reported_values_are_densities_under_returned_model', conj(f))

    def finite(self, c, n):
        Rp = self.R
        t, Th = logdet.scaled_identity(c, n)
        args = states.user_args(Rp, 1)
        data = np.zeros((2, n))
        st = Rp.model_state.ModelState.empty_model(args, data)
        st.point_labels = [0, 0]
        st.clusters[0].train_inverse = Th
        st.clusters[0].stacked_data_mean = np.zeros(n)
        det = logdet.DetWithRange('likelihood_logdet_argument_in_double_range')
        c.log_range_obligation = 'likelihood_logdet_argument_in_double_range'
        stubs.install_linalg(det=det, slogdet=logdet.slogdet_stub)
        c.notes.update({'n': n, 'site': 'likelihood'})
        ok, res = guarded(c, 'likelihood_logdet_argument_in_double_range',
                          Rp.likelihood.all_points_all_clusters_log_likelihood, st, data)
        if ok:
            c.prove('likelihood_logdet_argument_in_double_range', True)


CHECK = C05()
