"""C13 -- model state: labels and cluster membership always describe one partition."""
import itertools

import z3

from .base import *   # noqa
from . import states
from .mainloop import MainLoop
from .c08 import SpreadOracle

MUTABLE_LEAF = (list, dict, set)


def reachable_mutables(obj, Rp, seen=None, path='state'):
    """ids of every mutable object reachable from a state (lists, array buffers,
    containers), with a path for diagnostics."""
    if seen is None:
        seen = {}
    if obj is None or isinstance(obj, (int, float, str, bool, tuple, core.Sym)) and not isinstance(obj, tuple):
        return seen
    if isinstance(obj, np.ndarray):
        if obj.dtype.kind == 'O' and obj.size == 1 and obj._flat()[0] is None:
            return seen
        seen.setdefault(id(obj._b), path + '<buffer>')
        return seen
    if id(obj) in seen:
        return seen
    if isinstance(obj, (list, tuple)):
        if isinstance(obj, list):
            seen[id(obj)] = path
        for i, x in enumerate(obj):
            reachable_mutables(x, Rp, seen, '%s[%d]' % (path, i))
        return seen
    if isinstance(obj, (Rp.model_state.ModelState, Rp.model_state.ClusterParameters, Rp.arguments.UserArguments)):
        seen[id(obj)] = path
        for k, v in vars(obj).items():
            reachable_mutables(v, Rp, seen, path + '.' + k)
    return seen


OPS = ('assign', 'assign_inplace', 'repopulate', 'statistics', 'optimise', 'relabel', 'shallow_copy', 'deep_copy')


class C13(Check):
    pid = 'C13'
    validate = True
    fork_logging = True       # DEBUG logging on/off is a symbolic input of every path
    anchors = [('src/fast_ticc/containers/model_state.py', 'ModelState._update_cluster_membership'),
               ('src/fast_ticc/containers/model_state.py', 'ModelState.point_labels'),
               ('src/fast_ticc/containers/model_state.py', 'ModelState.deep_copy'),
               ('src/fast_ticc/containers/model_state.py', 'ModelState.shallow_copy'),
               ('src/fast_ticc/containers/model_state.py', 'ClusterParameters.deep_copy'),
               ('src/fast_ticc/containers/arguments.py', 'UserArguments.deep_copy'),
               ('src/fast_ticc/cluster_maintenance.py', 'repopulate_empty_clusters'),
               ('src/fast_ticc/cluster_maintenance.py', 'update_all_cluster_statistics'),
               ('src/fast_ticc/graphical_lasso.py', 'optimize_markov_random_fields'),
               ('src/fast_ticc/cluster_label_assignment.py', 'predict_cluster_labels')]
    obligations = ['invariant_after_op', 'input_intact_after_op', 'first_input_intact_after_two_ops',
                   'deep_copy_shares_nothing_mutable', 'deep_copy_mutation_isolated', 'setter_rederives_membership']
    obligation_text = {
        'invariant_after_op': 'for each operation: the output state has exactly K clusters and cluster k lists exactly the sorted points labelled k',
        'input_intact_after_op': 'the state given to the operation keeps labels, membership and fitted statistics (identity and value)',
        'first_input_intact_after_two_ops': 'after op2(op1(s)) the original s is still intact',
        'deep_copy_shares_nothing_mutable': 'object graphs of copy and source share no list / array buffer / container (scalar and array-valued hyper-parameters), and the copy equals its source field by field',
        'deep_copy_mutation_isolated': 'writing every mutable leaf of the copy leaves the source unchanged',
        'setter_rederives_membership': 'assigning an equal labelling is a no-op; any other (labels in -1..K-1, -1 = not labelled) re-derives all K member lists, including emptied clusters; unlabelled points belong to no cluster',
    }
    stubs = ['kernel summarised as "any labelling" for the relabel operation', 'stub pool, admm summary, inv/det opaque',
             'norm -> arbitrary spread; random.sample -> any distinct draw']
    assumptions = ['the scoring caches inverse_covariance/log_determinant (refreshed from the MRF by the likelihood step) '
                   'are not counted as "fitted statistics"']
    outside_claim = ['P, K beyond bounds', 'the traced-run half is covered through C09']
    canary = {'what': 'membership of emptied clusters is not re-derived (only labels that occur are visited)',
              'edits': [('fast_ticc/containers/model_state.py', 'for cluster_id in range(self.arguments.num_clusters):\n                this_cluster_members',
                         'for cluster_id in list(members):\n                this_cluster_members')]}

    def bounds(self, tier):
        if tier == 'quick':
            return {'single ops': 'K=2,P<=4 and K=3,P=3; m=1', 'chains': 'K=2,P=3, all ordered pairs of 5 phase operations, and each phase operation (and deep_copy) followed by an in-place label assignment on its result (a shallow copy documents that it shares its clusters)',
                    'deep copy': 'K=2, P=3, scalar and array-valued lambda/beta'}
        return {'single ops': 'K=2,P<=5 and K=3,P<=4; m<=2', 'chains': 'K=2,P=4 and K=3,P=3, all ordered pairs',
                'deep copy': 'K<=3, P<=4, scalar and array-valued lambda/beta'}

    def configs(self, tier):
        q = tier == 'quick'
        cfgs = []
        shapes = [(2, 3), (2, 4), (3, 3)] if q else [(2, 4), (2, 5), (3, 3), (3, 4)]
        for op in OPS:
            for (K, P) in shapes:
                cfgs.append(Config('op_%s_K%d_P%d' % (op, K, P), self.one_op, {'op': op, 'K': K, 'P': P},
                                   split=3, witness_every=9))
        phase_ops = ('assign', 'repopulate', 'statistics', 'optimise', 'relabel')
        for a, b in list(itertools.product(phase_ops, phase_ops)) + [(a, 'assign_inplace') for a in phase_ops + ('deep_copy',)]:
            for (K, P) in ([(2, 3)] if q else [(2, 4), (3, 3)]):
                cfgs.append(Config('chain_%s_%s_K%d_P%d' % (a, b, K, P), self.chain,
                                   {'op1': a, 'op2': b, 'K': K, 'P': P}, split=3))
        for form in ('scalar', 'arrays'):
            for (K, P) in ([(2, 3)] if q else [(2, 3), (3, 4)]):
                cfgs.append(Config('deep_copy_%s_K%d_P%d' % (form, K, P), self.deep_copy, {'form': form, 'K': K, 'P': P}))
        for (K, P) in shapes:
            cfgs.append(Config('setter_K%d_P%d' % (K, P), self.setter, {'K': K, 'P': P}, split=3))
        return cfgs

    # ---- operations
    def _mk(self, c, K, P, prefix='st', form='scalar'):
        Rp = self.R
        n = 1
        data = stubs.sym_array(c, 'x', (P, n), writeable=False)
        if form == 'arrays':
            lam = stubs.sym_symmetric(c, 'lam', n)
            beta = stubs.sym_array(c, 'beta', (P,), lo=0)
        else:
            lam, beta = 0.125, 1.0
        args = states.user_args(Rp, K, lam=lam, beta=beta, m=1, biased=True)
        labels = [c.int('l_%d' % i, 0, K - 1) for i in range(P)]
        st = states.fitted_state(Rp, c, K, n, labels, data, args, prefix=prefix)
        return st, data

    def _apply(self, c, op, st, data, K, P, tag):
        Rp = self.R
        if op == 'assign':
            new = st.shallow_copy()
            new.clusters = [x.deep_copy() for x in new.clusters]
            new.point_labels = [c.int('%s_a_%d' % (tag, i), 0, K - 1) for i in range(P)]
            return new
        if op == 'assign_inplace':
            # the setter applied to the very state it is given (that state changes, by design;
            # every OTHER state produced earlier must stay intact)
            st.point_labels = [c.int('%s_i_%d' % (tag, i), 0, K - 1) for i in range(P)]
            return st
        if op == 'shallow_copy':
            return st.shallow_copy()
        if op == 'deep_copy':
            return st.deep_copy()
        if op == 'repopulate':
            for k, cl in enumerate(st.clusters):
                pass
            stubs.install_linalg(norm=stubs.NormOracle('%s_spread' % tag), inv=stubs.inv_uninterpreted,
                                 det=lambda M: core.SymReal(core.ctx().fresh_real('det')))
            rnd = stubs.StubRandom()
            old = Rp.cm.random
            Rp.cm.random = rnd
            try:
                try:
                    return Rp.cm.repopulate_empty_clusters(st)
                except RuntimeError:
                    raise core.PathAbort()
            finally:
                Rp.cm.random = old
        if op == 'statistics':
            if any(len(cl.member_points) < 1 for cl in st.clusters):
                raise core.PathAbort()
            return Rp.cm.update_all_cluster_statistics(st, data)
        stubs.install_linalg(norm=stubs.NormOracle('%s_spread' % tag), inv=stubs.inv_uninterpreted,
                             det=lambda M: core.SymReal(core.ctx().fresh_real('det')))
        if op == 'optimise':
            ml = MainLoop(Rp, c, K, 1, schedule='fifo', modes={'optimise': 'real'})
            ml.fresh = hash(tag) % 1000 * 1000
            with ml:
                return Rp.gl.optimize_markov_random_fields(st, data, stubs.StubPool(1))
        if op == 'relabel':
            real_kernel = Rp.cla.assign_point_cluster_labels

            def any_labelling(label_assignment_cost, label_switching_cost):
                T = label_assignment_cost.shape[0]
                return ([c.int('%s_k_%d' % (tag, i), 0, K - 1) for i in range(T)], c.real('%s_kc' % tag))
            Rp.cla.assign_point_cluster_labels = any_labelling
            try:
                return Rp.cla.predict_cluster_labels(st, data)
            finally:
                Rp.cla.assign_point_cluster_labels = real_kernel
        raise ValueError(op)

    def one_op(self, c, op, K, P):
        st, data = self._mk(c, K, P)
        if not states.invariant(st, K, P):
            raise core.HarnessError("pre-state does not satisfy the invariant")
        fz = states.freeze(st)
        c.notes.update({'op': op, 'K': K, 'P': P, 'labels': states.labels_of(st)})
        ok, new = guarded(c, 'invariant_after_op', self._apply, c, op, st, data, K, P, 'o1')
        if not ok:
            return
        c.notes['labels_after'] = states.labels_of(new)
        c.outputs['members'] = [list(cl.member_points) for cl in new.clusters]
        c.prove('invariant_after_op', states.invariant(new, K, P))
        c.prove('input_intact_after_op', True if op == 'assign_inplace' else states.intact(st, fz))

    def chain(self, c, op1, op2, K, P):
        st, data = self._mk(c, K, P)
        fz = states.freeze(st)
        c.notes.update({'op': [op1, op2], 'K': K, 'P': P, 'labels': states.labels_of(st)})
        ok, mid = guarded(c, 'first_input_intact_after_two_ops', self._apply, c, op1, st, data, K, P, 'o1')
        if not ok:
            return
        fz2 = states.freeze(mid) if mid is not st else None
        ok, new = guarded(c, 'first_input_intact_after_two_ops', self._apply, c, op2, mid, data, K, P, 'o2')
        if not ok:
            return
        f = [states.intact(st, fz) if not (op2 == 'assign_inplace' and mid is st) else True,
             states.invariant(new, K, P), states.invariant(mid, K, P), states.invariant(st, K, P)]
        if fz2 is not None and op2 != 'assign_inplace':
            f.append(states.intact(mid, fz2))
        c.prove('first_input_intact_after_two_ops', conj(f))

    def deep_copy(self, c, form, K, P):
        Rp = self.R
        st, data = self._mk(c, K, P, form=form)
        st.point_log_likelihood = stubs.sym_array(c, 'pll', (P, K), owner='lib')
        c.notes.update({'op': 'deep_copy', 'form': form, 'K': K, 'P': P, 'labels': states.labels_of(st)})
        ok, cp = guarded(c, 'deep_copy_shares_nothing_mutable', st.deep_copy)
        if not ok:
            return
        a = reachable_mutables(st, Rp)
        b = reachable_mutables(cp, Rp, path='copy')
        shared = sorted(a[i] for i in set(a) & set(b))
        c.notes['shared'] = shared
        a0, a1 = st.arguments, cp.arguments
        equal = [stubs.unchanged(stubs.snapshot(getattr(a0, f)), getattr(a1, f)) for f in
                 ('sparsity_weight', 'label_switching_cost', 'min_meaningful_covariance')] + \
                [getattr(a0, f) == getattr(a1, f) for f in ('iteration_limit', 'min_cluster_size', 'num_clusters',
                                                             'num_processors', 'window_size', 'biased_covariance')] + \
                [states.labels_of(cp) == states.labels_of(st)]
        for k in range(K):
            for fld in states.FIELDS:
                equal.append(stubs.unchanged(stubs.snapshot(getattr(st.clusters[k], fld)), getattr(cp.clusters[k], fld)))
        c.prove('deep_copy_shares_nothing_mutable',
                conj([not shared, cp is not st, states.invariant(cp, K, P)] + equal), detail={'shared': shared})
        # mutate every mutable leaf of the copy
        fz = states.freeze(st)
        lam_snap = stubs.snapshot(st.arguments.sparsity_weight)
        beta_snap = stubs.snapshot(st.arguments.label_switching_cost)
        data_snap = stubs.snapshot(st.stacked_training_data)
        pll_snap = stubs.snapshot(st.point_log_likelihood)
        for cl in cp.clusters:
            for fld in states.FIELDS:
                arr = getattr(cl, fld)
                if isinstance(arr, np.ndarray) and arr.dtype.kind == 'f':
                    arr[...] = 12345.0
            cl.member_points.append(999)
        cp.point_labels.append(0)
        cp.clusters.append(None)
        for arr in (cp.arguments.sparsity_weight, cp.arguments.label_switching_cost, cp.stacked_training_data,
                    cp.point_log_likelihood):
            if isinstance(arr, np.ndarray):
                arr._b.writeable = True
                arr[...] = 777.0
        cp.arguments.num_clusters = 99
        ok2 = [states.intact(st, fz), stubs.unchanged(lam_snap, st.arguments.sparsity_weight),
               stubs.unchanged(beta_snap, st.arguments.label_switching_cost),
               stubs.unchanged(data_snap, st.stacked_training_data),
               stubs.unchanged(pll_snap, st.point_log_likelihood), st.arguments.num_clusters == K]
        c.prove('deep_copy_mutation_isolated', conj(ok2))

    def setter(self, c, K, P):
        st, data = self._mk(c, K, P)
        before = states.labels_of(st)
        members_objs = [cl.member_points for cl in st.clusters]
        same = list(before)
        st.point_labels = same
        f = [states.invariant(st, K, P), all(a is b for a, b in zip(members_objs, [cl.member_points for cl in st.clusters]))]
        new = [c.int('n_%d' % i, -1, K - 1) for i in range(P)]      # -1 = point not labelled (documented)
        st.point_labels = new
        c.notes.update({'op': 'setter', 'K': K, 'P': P, 'labels': before, 'labels_after': states.labels_of(st)})
        f.append(states.invariant(st, K, P))
        f.append(states.labels_of(st) == [int(x) for x in new])
        c.prove('setter_rederives_membership', all(f))


CHECK = C13()
