"""C18 -- equivalent parameter forms give identical results."""
import z3

from .base import *   # noqa
from . import states
from .mainloop import MainLoop
from .c02 import soft_threshold_merged

SCALAR_TAGS = ['float', 'int', 'np.float64', 'np.float32', 'np.int64', 'np.uint8']
INT_TAGS = ('int', 'np.int64', 'np.int32', 'np.uint8', 'np.uint16', 'np.uint32', 'np.uint64')
MORE_TAGS = ['np.float16', 'np.int32', 'np.uint16', 'np.uint64']


def tagged(c, name, tag, lo=0):
    """A non-negative hyper-parameter value of the given type form.  Integer
    forms carry an integer value (the same numeric value is used for all forms)."""
    if tag in INT_TAGS:
        v = c.int(name, lo, 5)
        return core.SymInt(v.e, tag), core.SymReal(z3.ToReal(v.e), 'float')
    v = c.real(name, lo, 5)
    return core.SymReal(v.e, tag), core.SymReal(v.e, 'float')


class C18(Check):
    pid = 'C18'
    validate = True
    fork_logging = True       # DEBUG logging on/off is a symbolic input of every path
    anchors = [('src/fast_ticc/admm/solver.py', 'compute_lambda_sum'), ('src/fast_ticc/admm/solver.py', 'admm_update_z'),
               ('src/fast_ticc/cluster_label_assignment.py', 'assign_point_cluster_labels'),
               ('src/fast_ticc/graphical_lasso.py', '_zero_small_elements'),
               ('src/fast_ticc/front_end.py', 'ticc_labels'), ('src/fast_ticc/front_end.py', 'ticc_joint_labels')]
    obligations = ['scalar_lambda_equals_constant_matrix', 'lambda_type_forms_agree', 'beta_forms_agree',
                   'floor_type_forms_agree', 'front_ends_forward_forms_unchanged']
    obligation_text = {
        'scalar_lambda_equals_constant_matrix': 'compute_lambda_sum and the whole Z-update give equal outputs for a scalar lambda and the NW x NW matrix filled with it',
        'lambda_type_forms_agree': 'lambda as python float / python int / np.float64 / np.float32 / np.int64 with the same numeric value: same Z-update, no exception',
        'beta_forms_agree': 'kernel with scalar beta (each type form) == kernel with the vector filled with it',
        'floor_type_forms_agree': '_zero_small_elements with eps in each type form gives the same result',
        'front_ends_forward_forms_unchanged': 'both front ends hand the three hyper-parameters to fit_stacked_data as the very objects the caller passed (joint: beta up to the boundary mask)',
    }
    stubs = ['type forms are type tags on the symbolic value; the real isinstance dispatch runs against the tag',
             'soft_threshold_prox summarised by its merged If-term (C02)']
    assumptions = ['REAL arithmetic, except that an operation carried out in a narrow NumPy float type (np.float32, np.float16) is an uninterpreted rounding of the exact result']
    outside_claim = ['the rounding of a value when it is first converted to a narrow type (the same real value is used for all forms)',
                     'bitwise identity of complete float results']
    canary = {'what': 'scalar lambda multiplied by the block count instead of the class size',
              'edits': [('fast_ticc/admm/solver.py', '        return float(lambda_parameter) * num_occurrences',
                         '        return float(lambda_parameter) * num_blocks')]}

    def bounds(self, tier):
        return {'(N,W)': [(1, 1), (2, 1), (1, 2), (1, 3)] if tier == 'quick' else [(1, 1), (2, 1), (1, 2), (2, 2), (1, 3), (3, 1), (1, 4), (2, 3), (3, 2), (4, 1), (1, 5), (2, 4), (3, 3)],
                'type forms': SCALAR_TAGS if tier == 'quick' else SCALAR_TAGS + MORE_TAGS, 'kernel': 'T<=3,K=2' if tier == 'quick' else 'T<=5,K<=3', 'filter': '2x2',
                'end to end': '1..2 series of 2..3 points' if tier == 'quick' else '1..3 series of 2..3 points'}

    def configs(self, tier):
        cfgs = []
        tags = SCALAR_TAGS if tier == 'quick' else SCALAR_TAGS + MORE_TAGS
        for (N, W) in self.bounds(tier)['(N,W)']:
            cfgs.append(Config('lambda_value_N%d_W%d' % (N, W), self.lam_value, {'N': N, 'W': W}, nonlinear=True))
            for tag in tags:
                cfgs.append(Config('lambda_type_%s_N%d_W%d' % (tag, N, W), self.lam_type, {'N': N, 'W': W, 'tag': tag},
                                   nonlinear=True, witness_every=1, robust=True))
        for tag in tags:
            for (T, K) in ([(3, 2)] if tier == 'quick' else [(3, 2), (4, 2), (5, 2), (3, 3), (4, 3)]):
                cfgs.append(Config('beta_%s_T%d_K%d' % (tag, T, K), self.beta, {'T': T, 'K': K, 'tag': tag},
                                   split=3 if T * K > 9 else None))
            cfgs.append(Config('floor_%s' % tag, self.floor, {'tag': tag}))
        # at the public optimiser entry point (argument handling included), n = 1: lambda = 0 is a value too
        cfgs.append(Config('entry_point_value', self.entry_value, {}, nonlinear=True, split=2))
        cfgs.append(Config('forward_single', self.forward, {'joint': False}))
        cfgs.append(Config('forward_joint', self.forward, {'joint': True}))
        for joint in (False, True):
            cfgs.append(Config('forward_beta_forms_%s' % ('joint' if joint else 'single'), self.forward_beta_forms,
                               {'joint': joint, 'S': 2 if tier == 'quick' else 3}, split=2))
        return cfgs

    def _zrun(self, c, N, W, lam, x, u, rho):
        Rp = self.R
        args = Rp.arguments.ADMMArguments(window_size=W, num_data_series=N, rho=rho, rho_update=None,
                                          sparsity_weight=lam, absolute_tolerance=1e-6, relative_tolerance=1e-6,
                                          max_iterations=10, verbose=False)
        real_st = Rp.solver.soft_threshold_prox
        Rp.solver.soft_threshold_prox = soft_threshold_merged
        try:
            return Rp.solver.admm_update_z(args, u, x)
        finally:
            Rp.solver.soft_threshold_prox = real_st

    def lam_value(self, c, N, W):
        n = N * W
        L = n * (n + 1) // 2
        lam = c.real('lam', 0)
        mat = np.ndarray._new([lam] * (n * n), (n, n), np.float64, owner='caller')
        x = stubs.sym_array(c, 'x', (L,))
        u = stubs.sym_array(c, 'u', (L,))
        rho = c.real('rho')
        c.assume(R(rho) > 0)
        c.notes.update({'N': N, 'W': W, 'kind': 'value'})
        ok, z1 = guarded(c, 'scalar_lambda_equals_constant_matrix', self._zrun, c, N, W, lam, x, u, rho)
        if not ok:
            return
        ok, z2 = guarded(c, 'scalar_lambda_equals_constant_matrix', self._zrun, c, N, W, mat, x, u, rho)
        if not ok:
            return
        c.prove('scalar_lambda_equals_constant_matrix',
                conj([z1.shape == z2.shape] + [R(a) == R(b) for a, b in zip(z1._flat(), z2._flat())]))
        # ... and again, in the same process, for ANOTHER value (an earlier matrix-valued solve must leave nothing behind)
        lam2 = c.real('lam2', 0)
        mat2 = np.ndarray._new([lam2] * (n * n), (n, n), np.float64, owner='caller')
        ok, z3_ = guarded(c, 'scalar_lambda_equals_constant_matrix', self._zrun, c, N, W, lam2, x, u, rho)
        if not ok:
            return
        ok, z4 = guarded(c, 'scalar_lambda_equals_constant_matrix', self._zrun, c, N, W, mat2, x, u, rho)
        if not ok:
            return
        c.prove('scalar_lambda_equals_constant_matrix',
                conj([z3_.shape == z4.shape] + [R(a) == R(b) for a, b in zip(z3_._flat(), z4._flat())]))

    def entry_value(self, c):
        """admm_optimize_theta(S, lambda, ...) for a scalar lambda >= 0 (zero included) and for the 1 x 1
        matrix holding the same value: same theta."""
        Rp = self.R
        S = stubs.sym_symmetric(c, 'S', 1)
        lam = c.real('lam', 0)
        mat = np.ndarray._new([lam], (1, 1), np.float64, owner='caller')
        c.notes.update({'N': 1, 'W': 1, 'kind': 'value', 'entry': True})
        outs = []
        for form in (lam, mat):
            # 1 x 1: the eigendecomposition is exact -- the eigenvalue is the entry, the eigenvector is [1]
            stubs.install_linalg(eigh=lambda M, **k: (np.array([np.asarray(M)[0, 0]]), np.array([[1.0]])),
                                 norm=stubs.norm_exact)
            ok, res = guarded(c, 'scalar_lambda_equals_constant_matrix', Rp.admm.admm_optimize_theta, S, form, 1, 1,
                              max_iterations=2)      # the second X-update sees the first Z-update
            if not ok:
                return
            outs.append(np.asarray(res.theta))
        c.prove('scalar_lambda_equals_constant_matrix',
                conj([outs[0].shape == outs[1].shape] + [R(a) == R(b) for a, b in zip(outs[0]._flat(), outs[1]._flat())]))

    def lam_type(self, c, N, W, tag):
        n = N * W
        L = n * (n + 1) // 2
        lam, ref = tagged(c, 'lam', tag)
        x = stubs.sym_array(c, 'x', (L,))
        u = stubs.sym_array(c, 'u', (L,))
        rho = c.real('rho')
        c.assume(R(rho) > 0)
        c.notes.update({'N': N, 'W': W, 'kind': 'type', 'tag': tag})
        z_ref = self._zrun(c, N, W, ref, x, u, rho)
        c.outputs['z'] = z_ref
        ok, z = guarded(c, 'lambda_type_forms_agree', self._zrun, c, N, W, lam, x, u, rho)
        if not ok:
            return
        c.prove('lambda_type_forms_agree',
                conj([z.shape == z_ref.shape] + [R(a) == R(b) for a, b in zip(z._flat(), z_ref._flat())]))

    def beta(self, c, T, K, tag):
        Rp = self.R
        cost = stubs.sym_array(c, 'c', (T, K))
        b, bref = tagged(c, 'b', tag)
        vec = np.ndarray._new([bref] * T, (T,), np.float64, owner='caller')
        c.notes.update({'T': T, 'K': K, 'kind': 'beta', 'tag': tag})
        ok, r1 = guarded(c, 'beta_forms_agree', Rp.cla.assign_point_cluster_labels, cost, b)
        if not ok:
            return
        p2, c2 = Rp.cla.assign_point_cluster_labels(cost, vec)
        p1, c1 = r1
        c.prove('beta_forms_agree', conj([len(p1) == len(p2), R(c1) == R(c2)] + [I(a) == I(b_) for a, b_ in zip(p1, p2)]))

    def floor(self, c, tag):
        Rp = self.R
        eps, ref = tagged(c, 'eps', tag)
        M = stubs.sym_array(c, 'm', (2, 2))
        c.notes.update({'kind': 'floor', 'tag': tag})
        out_ref = Rp.gl._zero_small_elements(M, ref)
        ok, out = guarded(c, 'floor_type_forms_agree', Rp.gl._zero_small_elements, M, eps)
        if not ok:
            return
        c.prove('floor_type_forms_agree', conj([R(a) == R(b) for a, b in zip(out._flat(), out_ref._flat())]))

    def forward(self, c, joint):
        Rp = self.R
        K, W, N = 2, 1, 1
        lam = stubs.sym_symmetric(c, 'lam', N * W)
        beta = c.real('b', 0)
        eps = c.real('eps', 0)
        seen = []
        real_fit = Rp.main_loop.fit_stacked_data

        def spy(user_args, stacked):
            seen.append(user_args)
            return real_fit(user_args, stacked)
        ml = MainLoop(Rp, c, K, N * W, modes={'initial': 'summary'}, label_hook=lambda r, T: [i % K for i in range(T)])
        ml.s_initial = lambda k, d: [i % K for i in range(len(d))]
        Rp.main_loop.fit_stacked_data = spy
        c.notes.update({'kind': 'forward', 'joint': joint})
        try:
            with ml:
                kw = dict(window_size=W, num_clusters=K, iteration_limit=1, min_cluster_size=1, sparsity_weight=lam,
                          label_switching_cost=beta, min_meaningful_covariance=eps)
                if joint:
                    ok, res = guarded(c, 'front_ends_forward_forms_unchanged', Rp.front_end.ticc_joint_labels,
                                      [np.zeros((2, N)), np.zeros((2, N))], **kw)
                else:
                    ok, res = guarded(c, 'front_ends_forward_forms_unchanged', Rp.front_end.ticc_labels,
                                      np.zeros((3, N)), **kw)
        finally:
            Rp.main_loop.fit_stacked_data = real_fit
        if not ok:
            return
        a = seen[0]
        f = [len(seen) == 1, a.sparsity_weight is lam, a.min_meaningful_covariance is eps]
        if joint:
            b = a.label_switching_cost
            if isinstance(b, np.ndarray):
                f += [z3.Or(R(v) == R(beta), R(v) == 0) for v in b._flat()]
            else:
                f.append(b is beta)
        else:
            f.append(a.label_switching_cost is beta)
        c.prove('front_ends_forward_forms_unchanged', conj(f))

    def forward_beta_forms(self, c, joint, S):
        """End to end through a front end: the per-pair switching cost that reaches the main loop when
        beta is a scalar b, and when it is a vector filled with b, must be the same for every pair
        (whatever the front end does to it -- e.g. masking series boundaries -- it must do to both)."""
        Rp = self.R
        K, W, N = 2, 1, 1
        b = c.real('b', 0)
        c.assume(R(b) > 0)
        lens = [int(c.int('L_%d' % s_, 2, 3)) for s_ in range(S if joint else 1)]
        total = sum(L - W + 1 for L in lens)
        seen = []
        real_fit = Rp.main_loop.fit_stacked_data

        def spy(user_args, stacked):
            seen.append(user_args)
            return real_fit(user_args, stacked)
        c.notes.update({'kind': 'forward_beta_forms', 'joint': joint, 'lens': lens})
        vec = np.ndarray._new([b] * total, (total,), np.float64, owner='caller')
        for form in (b, vec):
            ml = MainLoop(Rp, c, K, N * W, modes={'initial': 'summary'}, label_hook=lambda r, T: [i % K for i in range(T)])
            ml.s_initial = lambda k, d: [i % K for i in range(len(d))]
            Rp.main_loop.fit_stacked_data = spy
            try:
                with ml:
                    kw = dict(window_size=W, num_clusters=K, iteration_limit=1, min_cluster_size=1, sparsity_weight=0.1,
                              label_switching_cost=form)
                    data = [np.zeros((L, N)) for L in lens]
                    ok, res = guarded(c, 'beta_forms_agree', Rp.front_end.ticc_joint_labels if joint
                                      else Rp.front_end.ticc_labels, data if joint else data[0], **kw)
            finally:
                Rp.main_loop.fit_stacked_data = real_fit
            if not ok:
                return

        def effective(a):
            v = a.label_switching_cost
            if isinstance(v, np.ndarray):
                return [R(x) for x in v._flat()]
            return [R(v)] * total
        f = [len(seen) == 2]
        if f[0]:
            e1, e2 = effective(seen[0]), effective(seen[1])
            f.append(len(e1) == len(e2) == total)
            if f[-1]:
                f += [x == y for x, y in zip(e1[:total - 1], e2[:total - 1])]     # entry T-1 prices no pair
        c.prove('beta_forms_agree', conj(f))


CHECK = C18()
