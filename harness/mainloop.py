"""The main-loop harness shared by C04, C06, C07, C09, C13, C14, C19, C20.

The real ``fit_stacked_data`` / front ends run as written; each numerical
phase is either real or replaced by a *recording summary* (assume-guarantee:
returns a fresh state with arbitrary symbolic content of the right shape).
Everything is patched on module attributes from the checker process and
restored afterwards; /repo is never edited.
"""
import os

import z3

from symx import core, symnp, stubs
from symx.stubs import R, I

np = symnp

PHASES = ('initial', 'repopulate', 'statistics', 'optimise', 'relabel', 'bic', 'ch', 'point_ll')


class MainLoop:
    def __init__(self, Rp, c, K, n, modes=None, label_hook=None, fault=None, env_mp=None,
                 schedule='fifo', admm='summary', spd=False, concrete_mean=None):
        """modes: phase -> 'real' | 'summary'.  label_hook(round, T) -> labels for the
        relabel summary (default: fresh symbolic labels).  fault(round, phase) -> exception
        to raise or None."""
        self.Rp, self.c, self.K, self.n = Rp, c, K, n
        self.modes = {p: 'summary' for p in PHASES}
        self.modes['initial'] = 'real'
        if modes:
            self.modes.update(modes)
        self.label_hook = label_hook
        self.fault = fault
        self.trace = []           # (round, phase, in_state, out_state)
        self.round = -1
        self.saved = []
        self.pools = []
        self.env_mp = env_mp
        self.schedule = schedule
        self.admm = admm
        self.admm_calls = []
        self.kernel_calls = []
        self.fresh = 0
        self.relabel_states = []
        self.spd = spd
        self.concrete_mean = concrete_mean    # fn(round, k, j) -> number, or None (symbolic)

    # ---- fresh symbolic content
    def _name(self, hint):
        self.fresh += 1
        return '%s%d' % (hint, self.fresh)

    def fresh_vec(self, hint, n):
        nm = self._name(hint)
        return np.ndarray._new([self.c.real('%s_%d' % (nm, i)) for i in range(n)], (n,), np.float64)

    def named_vec(self, nm, n):
        return np.ndarray._new([self.c.real('%s_%d' % (nm, i)) for i in range(n)], (n,), np.float64)

    def named_sym(self, nm, n):
        return stubs.sym_symmetric(self.c, nm, n, owner='lib')

    def fresh_sym(self, hint, n):
        return stubs.sym_symmetric(self.c, self._name(hint), n, owner='lib')

    def fresh_labels(self, T, hint='lab'):
        nm = self._name(hint)
        return [self.c.int('%s_%d' % (nm, i), 0, self.K - 1) for i in range(T)]

    # ---- patching
    def _patch(self, mod, name, new):
        self.saved.append((mod, name, getattr(mod, name)))
        setattr(mod, name, new)

    def _maybe_fault(self, phase):
        if self.fault is not None:
            exc = self.fault(self.round, phase)
            if exc is not None:
                raise exc

    def _wrap(self, phase, real, summary, state_arg=0):
        ml = self

        def wrapper(*a, **k):
            if phase == 'statistics':
                ml.round += 1
            ml._maybe_fault(phase)
            fn = real if ml.modes[phase] == 'real' else summary
            inp = a[state_arg] if len(a) > state_arg else None
            out = fn(*a, **k)
            ml.trace.append((ml.round if phase not in ('repopulate',) else ml.round + 1, phase, inp, out))
            return out
        return wrapper

    def install(self):
        Rp = self.Rp
        cla, cm, gl, met, lk, mlp = Rp.cla, Rp.cm, Rp.gl, Rp.metrics, Rp.likelihood, Rp.main_loop
        self._patch(cla, 'build_initial_clusters',
                    self._wrap('initial', cla.build_initial_clusters, self.s_initial, state_arg=9))
        self._patch(cm, 'repopulate_empty_clusters',
                    self._wrap('repopulate', cm.repopulate_empty_clusters, self.s_repopulate))
        self._patch(cm, 'update_all_cluster_statistics',
                    self._wrap('statistics', cm.update_all_cluster_statistics, self.s_statistics))
        self._patch(gl, 'optimize_markov_random_fields',
                    self._wrap('optimise', gl.optimize_markov_random_fields, self.s_optimise))
        self._patch(cla, 'predict_cluster_labels',
                    self._wrap('relabel', cla.predict_cluster_labels, self.s_relabel))
        self._patch(met, 'bayesian_information_criterion',
                    self._wrap('bic', met.bayesian_information_criterion, self.s_bic))
        self._patch(met, 'calinski_harabasz_index',
                    self._wrap('ch', met.calinski_harabasz_index, self.s_ch, state_arg=1))
        self._patch(lk, 'point_log_likelihood',
                    self._wrap('point_ll', lk.point_log_likelihood, self.s_point_ll, state_arg=1))
        # environment
        smp = stubs.StubMultiprocessing()
        self._patch(mlp, 'multiprocessing', smp)
        stubs.StubPool.instances = self.pools
        stubs.StubPool.schedule = self.schedule
        stubs.StubPool.fault = None
        if self.admm == 'summary':
            self._patch(Rp.admm, 'admm_optimize_theta', self.s_admm)
        real_kernel = cla.assign_point_cluster_labels
        ml = self

        def kernel_spy(label_assignment_cost, label_switching_cost):
            r = real_kernel(label_assignment_cost=label_assignment_cost,
                            label_switching_cost=label_switching_cost)
            ml.kernel_calls.append((label_assignment_cost, label_switching_cost, r))
            return r
        self._patch(cla, 'assign_point_cluster_labels', kernel_spy)
        self._env_old = os.environ.get('CUPCAKE_ENABLE_MULTIPROCESSING')
        if self.env_mp is None:
            os.environ.pop('CUPCAKE_ENABLE_MULTIPROCESSING', None)
        else:
            os.environ['CUPCAKE_ENABLE_MULTIPROCESSING'] = self.env_mp
        return self

    def restore(self):
        for (mod, name, old) in reversed(self.saved):
            setattr(mod, name, old)
        self.saved = []
        stubs.StubPool.fault = None
        stubs.StubPool.schedule = 'symbolic'
        if self._env_old is None:
            os.environ.pop('CUPCAKE_ENABLE_MULTIPROCESSING', None)
        else:
            os.environ['CUPCAKE_ENABLE_MULTIPROCESSING'] = self._env_old

    def __enter__(self):
        return self.install()

    def __exit__(self, *a):
        self.restore()
        return False

    # ---- summaries
    def s_initial(self, num_clusters, training_data):
        return self.fresh_labels(len(training_data), 'init')

    def s_repopulate(self, model):
        return model

    def s_statistics(self, model, data):
        new = model.shallow_copy()
        cl = []
        for k in range(len(model.clusters)):
            x = model.clusters[k].shallow_copy()
            if self.concrete_mean is not None:
                x.stacked_data_mean = np.array([float(self.concrete_mean(self.round, k, j)) for j in range(self.n)])
            else:
                x.stacked_data_mean = self.named_vec('mu_r%d_k%d' % (self.round, k), self.n)
            x.empirical_covariance = self.named_sym('S_r%d_k%d' % (self.round, k), self.n)
            cl.append(x)
        new.clusters = cl
        return new

    def s_optimise(self, model, data, pool):
        new = model.shallow_copy()
        cl = []
        for k in range(len(model.clusters)):
            x = model.clusters[k].shallow_copy()
            x.train_inverse = self.named_sym('Th_r%d_k%d' % (self.round, k), self.n)
            if self.spd == 'dominant':
                from . import logdet
                logdet.assume_diag_dominant(self.c, x.train_inverse)
            elif self.spd:
                from . import states
                states.assume_spd(self.c, x.train_inverse)
            x.computed_covariance = self.named_sym('Cv_r%d_k%d' % (self.round, k), self.n)
            x.log_determinant = self.c.real('ld_r%d_k%d' % (self.round, k))
            cl.append(x)
        new.clusters = cl
        return new

    def s_relabel(self, model, data):
        T = len(data)
        new = model.shallow_copy()
        new.clusters = [x.deep_copy() for x in new.clusters]
        r = len(self.relabel_states)
        labels = self.label_hook(r, T) if self.label_hook else self.fresh_labels(T, 'r%d_' % r)
        new.point_labels = labels
        new.label_assignment_cost = self.c.real(self._name('cost'))
        self.relabel_states.append(new)
        return new

    def s_bic(self, model):
        return self.c.real(self._name('bic'))

    def s_ch(self, data, model):
        return self.c.real(self._name('ch'))

    def s_point_ll(self, point, cluster, window_size, num_data_series):
        return self.c.real(self._name('pll'))

    def s_admm(self, empirical_covariance, sparsity_weight, window_size, num_data_series, **kw):
        n = int(window_size) * int(num_data_series)
        L = n * (n + 1) // 2
        theta = self.fresh_vec('theta', L)
        self.admm_calls.append(((empirical_covariance, sparsity_weight, window_size, num_data_series), kw, theta))
        return self.Rp.results.ADMMResult(theta=theta)
