"""C10 -- window stacking is exact and never crosses a series boundary."""
import z3

from .base import *   # noqa


class C10(Check):
    pid = 'C10'
    validate = True
    fork_logging = True       # DEBUG logging on/off is a symbolic input of every path
    element_theory = 'BITS (opaque 64-bit payloads: bit-for-bit copy semantics); INT for sizes and labels'
    anchors = [('src/fast_ticc/data_preparation.py', 'stack_training_data'),
               ('src/fast_ticc/data_preparation.py', 'stack_training_data_multiple_series'),
               ('src/fast_ticc/data_preparation.py', 'split_joint_labels'),
               ('src/fast_ticc/data_preparation.py', 'pad_missing_labels')]
    obligations = ['stack_shape', 'stack_is_exact_copy', 'stack_leaves_input_untouched',
                   'multi_is_concatenation_in_order', 'split_pad_restores_series']
    obligation_text = {
        'stack_shape': 'result has exactly T-W+1 rows and N*W columns',
        'stack_is_exact_copy': 'out[i, j*N+k] is the very payload data[i+j, k] for all i,j,k',
        'stack_leaves_input_untouched': 'no write to the caller-owned input buffer',
        'multi_is_concatenation_in_order': 'row offset(s)+i of the joint stacking equals row i of series s stacked alone',
        'split_pad_restores_series': 'split by stacked lengths then pad: one list per series, length len_s+W-1, margins -1, middle = that series slice',
    }
    stubs = ['numba absent']
    assumptions = ['input dtype float64 (other dtypes are converted by the copy; outside the claim)']
    outside_claim = ['T > W+6, W > 8, N > 4, more than 5 series (the loops are uniform in these parameters, '
                     'which is an argument and not a solver result)', 'non-float64 inputs']
    canary = {'what': 'window rows shifted by one (guarded so that T == W still works)',
              'edits': [('fast_ticc/data_preparation.py',
                         'stacked_training_data[i, start_column:end_column] = data[i+j, :]',
                         'stacked_training_data[i, start_column:end_column] = data[i+j-(1 if (i+j > 0 and num_full_windows > 2 and j > 0) else 0), :]')]}

    def bounds(self, tier):
        if tier == 'quick':
            return {'W': '1..4', 'N': '1..3', 'T': 'W..W+3', 'series': '1..3, lengths W..W+2 independently',
                    'labels': 'symbolic ints', 'split': '1..3 series of 1..3 stacked points, W 1..5', 'memory order of the input': ['C', 'F'],
                    'call history': 'one earlier stacking of any other geometry (W 1..3, N 1..3, T W..W+2) in the same process'}
        return {'W': '1..12', 'N': '1..6', 'T': 'W..W+40 (the whole range the property states)', 'series': '1..6, lengths W..W+2 independently (W<=4, N<=2; 5-6 series: W<=2)',
                'labels': 'symbolic ints', 'split': '1..4 series of 1..4 stacked points, W 1..9', 'memory order of the input': ['C', 'F'],
                'call history': 'one earlier stacking of any other geometry (W 1..4, N 1..4, T W..W+3) in the same process'}

    def configs(self, tier):
        q = tier == 'quick'
        cfgs = [Config('stack', self.stack, {'Wmax': 4 if q else 12, 'Nmax': 3 if q else 6, 'dT': 3 if q else 40},
                       split=2, witness_every=5 if q else 97, max_fanout=128)]
        # call history: an earlier stacking of another geometry in the same process
        cfgs.append(Config('stack_after_another', self.stack_twice, {'Wmax': 3 if q else 4, 'Nmax': 3 if q else 4, 'dT': 2 if q else 3},
                           split=3, witness_every=23, max_fanout=128))
        for S in ([1, 2, 3] if q else [1, 2, 3, 4, 5, 6]):
            cfgs.append(Config('multi_S%d' % S, self.multi,
                               {'S': S, 'Wmax': 3 if q else (4 if S <= 4 else 2), 'Nmax': 2, 'dT': 2 if S <= 5 else 1},
                               split=2, witness_every=17))
        for S in ([1, 2, 3] if q else [1, 2, 3, 4]):
            cfgs.append(Config('split_S%d' % S, self.split, {'S': S, 'Lmax': 3 if q else 4, 'Wmax': 5 if q else 9},
                               split=2))
        return cfgs

    def stack(self, c, Wmax, Nmax, dT):
        dp = self.R.data_preparation
        W = c.int('W', 1, Wmax)
        N = int(c.int('N', 1, Nmax))
        T = c.int('T', 1)
        c.assume(z3.And(I(T) >= I(W), I(T) <= I(W) + dT))
        Tn = int(T)
        data = stubs.sym_array(c, 'd', (Tn, N), kind='bits')
        order = 'F' if (N > 1 and Tn > 1 and bool(int(c.int('fortran_order', 0, 1)))) else 'C'
        if order == 'F':
            # the same values in column-major memory order (what np.loadtxt(...).T or a pickled fixture gives)
            data = np._laid_out(data._flat(), data.shape, data.dtype, [1, 0], owner='caller')
        snap = stubs.snapshot(data)
        c.notes.update({'T': Tn, 'N': N, 'order': order})
        ok, out = guarded(c, 'stack_shape', dp.stack_training_data, data, W)
        if not ok:
            return
        Wn = int(W)
        c.notes['W'] = Wn
        c.outputs['shape'] = list(out.shape)
        if not c.prove('stack_shape', isinstance(out, np.ndarray) and out.shape == (Tn - Wn + 1, N * Wn)):
            return
        f = []
        for i in range(Tn - Wn + 1):
            for j in range(Wn):
                for k in range(N):
                    f.append(stubs.same_terms(out[i, j * N + k], data[i + j, k]))
        c.prove('stack_is_exact_copy', conj(f))
        c.prove('stack_leaves_input_untouched',
                conj([stubs.unchanged(snap, data), not [w for w in np.WRITE_LOG if w[0] == 'caller'],
                      out._b is not data._b]))

    def stack_twice(self, c, Wmax, Nmax, dT):
        dp = self.R.data_preparation
        geo = []
        for t in ('first', 'second'):
            W = int(c.int('W_' + t, 1, Wmax))
            N = int(c.int('N_' + t, 1, Nmax))
            T = int(c.int('T_' + t, W, W + dT))
            geo.append((T, N, W))
        (T0, N0, W0), (T, N, W) = geo
        first = stubs.sym_array(c, 'e', (T0, N0), kind='bits')
        ok, _ = guarded(c, 'stack_is_exact_copy', dp.stack_training_data, first, W0)
        if not ok:
            return
        data = stubs.sym_array(c, 'd', (T, N), kind='bits')
        snap = stubs.snapshot(data)
        c.notes.update({'T': T, 'N': N, 'W': W, 'first': {'T': T0, 'N': N0, 'W': W0}})
        ok, out = guarded(c, 'stack_is_exact_copy', dp.stack_training_data, data, W)
        if not ok:
            return
        f = [isinstance(out, np.ndarray) and out.shape == (T - W + 1, N * W)]
        if f[0]:
            for i in range(T - W + 1):
                for j in range(W):
                    for k in range(N):
                        f.append(stubs.same_terms(out[i, j * N + k], data[i + j, k]))
            f.append(stubs.unchanged(snap, data))
        c.prove('stack_is_exact_copy', conj(f))

    def multi(self, c, S, Wmax, Nmax, dT):
        dp = self.R.data_preparation
        W = int(c.int('W', 1, Wmax))
        N = int(c.int('N', 1, Nmax))
        lens = []
        for s in range(S):
            L = c.int('L_%d' % s, W, W + dT)
            lens.append(int(L))
        series = [stubs.sym_array(c, 'd%d' % s, (lens[s], N), kind='bits') for s in range(S)]
        snaps = [stubs.snapshot(a) for a in series]
        given = list(series)
        c.notes.update({'W': W, 'N': N, 'lens': lens})
        ok, out = guarded(c, 'multi_is_concatenation_in_order',
                          dp.stack_training_data_multiple_series, given, W)
        if not ok:
            return
        rows = sum(L - W + 1 for L in lens)
        f = [isinstance(out, np.ndarray) and out.shape == (rows, N * W), len(given) == S,
             all(a is b for a, b in zip(given, series))]
        if all(f):
            off = 0
            for s in range(S):
                for i in range(lens[s] - W + 1):
                    for j in range(W):
                        for k in range(N):
                            f.append(stubs.same_terms(out[off + i, j * N + k], series[s][i + j, k]))
                off += lens[s] - W + 1
            f += [stubs.unchanged(sn, a) for sn, a in zip(snaps, series)]
        c.prove('multi_is_concatenation_in_order', conj(f))

    def split(self, c, S, Lmax, Wmax):
        dp = self.R.data_preparation
        W = c.int('W', 1, Wmax)
        lens = [c.int('n_%d' % s, 1, Lmax) for s in range(S)]
        total = int(sum(lens))
        joint = [c.int('lab_%d' % i, 0, 9) for i in range(total)]
        given_lens = list(lens)
        ok, parts = guarded(c, 'split_pad_restores_series', dp.split_joint_labels, list(joint), given_lens)
        if not ok:
            return
        f = [len(parts) == S]
        if f[0]:
            off = 0
            for s in range(S):
                ok, padded = guarded(c, 'split_pad_restores_series', dp.pad_missing_labels, parts[s], W)
                if not ok:
                    return
                Wn, Ls = int(W), int(lens[s])
                front = (Wn - 1) // 2
                back = (Wn - 1) - front
                f.append(len(padded) == Ls + Wn - 1)
                if not f[-1]:
                    break
                for i in range(front):
                    f.append(stubs.same_terms(padded[i], -1))
                for i in range(back):
                    f.append(stubs.same_terms(padded[len(padded) - 1 - i], -1))
                for i in range(Ls):
                    f.append(I(padded[front + i]) == I(joint[off + i]))
                off += Ls
        c.notes.update({'W': int(W), 'lens': [int(x) for x in lens]})
        c.prove('split_pad_restores_series', conj(f))


CHECK = C10()
