"""Common base for per-property harnesses."""
import z3

from symx import core, symnp, stubs
from symx.runner import Config
from symx.stubs import R, I, conj, disj, implies, select, rsum

np = symnp


class Check:
    pid = None
    R = None            # the loaded repo (set by the runner)
    seed = 0
    tier = 'quick'
    validate = False
    element_theory = 'REAL (python float modelled as exact real); INT for sizes/indices/labels'
    anchors = []
    obligations = []
    obligation_text = {}
    stubs = []
    assumptions = []
    outside_claim = []
    canary = None

    def reset(self):
        """Called at the start of every path."""
        stubs.install_linalg()

    def configs(self, tier):
        raise NotImplementedError

    def bounds(self, tier):
        return {}


def guarded(c, name, fn, *a, _allow=(), **k):
    """Call real code; an exception nobody declared is itself a failed
    obligation (candidate violation: 'raises on a valid input').  Exception
    classes listed in ``_allow`` are documented outcomes and propagate."""
    try:
        return True, fn(*a, **k)
    except _allow:
        raise
    except core.PathAbort:
        raise
    except core.Unsupported:
        raise
    except core.HarnessError:
        raise
    except Exception as exc:
        c.notes['unexpected_exception'] = repr(exc)
        c.prove(name, False, detail={'raised': repr(exc)})
        return False, exc
