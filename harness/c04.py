"""C04 -- one label per input row; the unlabeled margin is exactly W-1 points."""
import z3

from .base import *   # noqa
from .mainloop import MainLoop


def fresh_det(M):
    c = core.ctx()
    return core.SymReal(c.fresh_real('det'))


def install_la():
    stubs.install_linalg(inv=stubs.inv_uninterpreted, det=fresh_det, norm=stubs.NormOracle())


class C04(Check):
    pid = 'C04'
    validate = True
    fork_logging = True       # DEBUG logging on/off is a symbolic input of every path
    anchors = [('src/fast_ticc/front_end.py', 'ticc_labels'), ('src/fast_ticc/front_end.py', 'ticc_joint_labels'),
               ('src/fast_ticc/front_end.py', '_split_combined_result'),
               ('src/fast_ticc/data_preparation.py', 'pad_missing_labels'),
               ('src/fast_ticc/data_preparation.py', 'split_joint_labels'),
               ('src/fast_ticc/data_preparation.py', 'stack_training_data'),
               ('src/fast_ticc/main_loop.py', 'fit_stacked_data'),
               ('src/fast_ticc/graphical_lasso.py', '_update_cluster_covariances')]
    obligations = ['single_labels_shape_and_margins', 'single_result_structure', 'joint_labels_shape_and_margins',
                   'joint_result_structure']
    obligation_text = {
        'single_labels_shape_and_margins': 'T labels; first floor((W-1)/2) and last (W-1)-floor((W-1)/2) are -1; the rest are the labelling step\'s labels, in order, integers in [0,K)',
        'single_result_structure': 'exactly K MRFs, each NW x NW, being the last fitted ones; num_clusters=K; window_size=W',
        'joint_labels_shape_and_margins': 'one list per input series, in input order, as long as its own series; margins as above; middle = that series\' slice of the joint labelling (no leakage across series)',
        'joint_result_structure': 'K MRFs of size NW x NW, K and W echoed',
    }
    stubs = ['numerical phases summarised (statistics: arbitrary mean/covariance; relabel: arbitrary labels in [0,K); '
             'metrics and per-point likelihood: arbitrary reals); admm_optimize_theta -> arbitrary compressed vector',
             'multiprocessing.Pool -> in-process stub pool', 'GaussianMixture -> arbitrary labelling',
             'np.linalg.inv/det -> opaque values']
    assumptions = ['"any hyper-parameters for which the run completes": the summaries always complete']
    outside_claim = ['sizes beyond the bounds', 'the numerical phases themselves (other properties)']
    canary = {'what': 'front margin computed as int(W/2)-1 (agrees with the pinned W=10 run)',
              'edits': [('fast_ticc/data_preparation.py', 'front_length = int((window_size - 1)/2)',
                         'front_length = max(int(window_size/2) - 1, 0)')]}

    def bounds(self, tier):
        if tier == 'quick':
            return {'W': '1..6', 'N': '1..2', 'K': '2..3', 'single series length': 'W..W+3',
                    'joint': '1..3 series, lengths W..W+2 independently (3 series: W..W+1)', 'iteration_limit': '1..2',
                    'labels': 'positional pattern (all sizes) and fully symbolic (<=4 stacked points, K=2)',
                    'call history': 'two consecutive front-end calls on the same arrays, window sizes 1..3 each'}
        return {'W': '1..12', 'N': '1..2', 'K': '2..3', 'single series length': 'W..W+4',
                'joint': '1..4 series, lengths W..W+2 independently', 'iteration_limit': '1..2',
                'labels': 'positional pattern (all sizes) and fully symbolic (<=5 stacked points, K=2..3)',
                'call history': 'two consecutive front-end calls on the same arrays, window sizes 1..5 (joint 1..4) each'}

    def configs(self, tier):
        q = tier == 'quick'
        Wmax = 6 if q else 12
        cfgs = [Config('single_pattern', self.single, {'Wmax': Wmax, 'dT': 3 if q else 4, 'sym': False},
                       split=2, witness_every=11),
                Config('single_symbolic', self.single, {'Wmax': 3 if q else 4, 'dT': 2 if q else 3, 'sym': True},
                       split=3, witness_every=29)]
        for S in ([1, 2, 3] if q else [1, 2, 3, 4]):
            cfgs.append(Config('joint_pattern_S%d' % S, self.joint, {'S': S, 'Wmax': Wmax, 'dT': 2 if S < 3 else 1, 'sym': False},
                               split=3, witness_every=31))
        # call history: the same caller-owned arrays are passed twice with different window sizes
        # (a parameter sweep); the second result must be judged exactly like a first one
        cfgs.append(Config('single_twice', self.twice, {'Wmax': 3 if q else 5, 'dT': 1 if q else 2, 'joint': False},
                           split=3, witness_every=13))
        cfgs.append(Config('joint_twice', self.twice, {'Wmax': 3 if q else 4, 'dT': 1, 'joint': True},
                           split=3, witness_every=13))
        for S in ([2] if q else [2, 3]):
            cfgs.append(Config('joint_symbolic_S%d' % S, self.joint, {'S': S, 'Wmax': 2, 'dT': 1, 'sym': True},
                               split=3, witness_every=31))
        return cfgs

    def _hook(self, K, sym):
        if sym:
            return None
        return lambda r, T: [(i * 7 + r + (i // 2)) % K for i in range(T)]

    def single(self, c, Wmax, dT, sym):
        Rp = self.R
        W = int(c.int('W', 1, Wmax))
        N = int(c.int('N', 1, 2))
        K = int(c.int('K', 2, 2 if sym else 3))
        L = int(c.int('L', W, W + dT))
        lim = int(c.int('limit', 1, 1 if sym else 2))
        data = np.zeros((L, N))
        data._b.owner = 'caller'
        install_la()
        c.notes.update({'W': W, 'N': N, 'K': K, 'lens': [L], 'limit': lim, 'joint': False})
        ml = MainLoop(Rp, c, K, N * W, modes={'optimise': 'real', 'initial': 'summary'},
                      label_hook=self._hook(K, sym))
        ml.s_initial = lambda k, d: [i % K for i in range(len(d))]
        with ml:
            ok, res = guarded(c, 'single_labels_shape_and_margins', Rp.front_end.ticc_labels, data,
                              window_size=W, num_clusters=K, iteration_limit=lim, min_cluster_size=1,
                              sparsity_weight=0.1, label_switching_cost=1.0)
        if not ok:
            return
        self._judge(c, ml, res, [res.point_labels], [L], W, N, K, 'single')

    def joint(self, c, S, Wmax, dT, sym):
        Rp = self.R
        W = int(c.int('W', 1, Wmax))
        N = int(c.int('N', 1, 1 if sym else 2))
        K = int(c.int('K', 2, 2 if sym else 3))
        lens = [int(c.int('L_%d' % s, W, W + dT)) for s in range(S)]
        lim = int(c.int('limit', 1, 2 if not sym else 1))
        series = [np.zeros((L, N)) for L in lens]
        # the series may arrive in any iterable: a list, a tuple, or a forward-only generator
        container = ['list', 'tuple', 'generator'][int(c.int('container', 0, 2))]
        given = list(series) if container == 'list' else tuple(series) if container == 'tuple' else (a for a in series)
        install_la()
        c.notes.update({'W': W, 'N': N, 'K': K, 'lens': lens, 'limit': lim, 'joint': True, 'container': container})
        ml = MainLoop(Rp, c, K, N * W, modes={'optimise': 'real', 'initial': 'summary'},
                      label_hook=self._hook(K, sym))
        ml.s_initial = lambda k, d: [i % K for i in range(len(d))]
        with ml:
            ok, res = guarded(c, 'joint_labels_shape_and_margins', Rp.front_end.ticc_joint_labels, given,
                              window_size=W, num_clusters=K, iteration_limit=lim, min_cluster_size=1,
                              sparsity_weight=0.1, label_switching_cost=1.0)
        if not ok:
            return
        pl = res.point_labels
        if not isinstance(pl, list) or len(pl) != S or not all(isinstance(x, list) for x in pl):
            c.prove('joint_labels_shape_and_margins', False,
                    detail={'n_entries': repr(len(pl)) if isinstance(pl, list) else repr(type(pl)),
                            'entry_types': sorted({type(x).__name__ for x in pl}) if isinstance(pl, list) else None})
            return
        self._judge(c, ml, res, pl, lens, W, N, K, 'joint')

    def twice(self, c, Wmax, dT, joint):
        Rp = self.R
        W1 = int(c.int('W_first', 1, Wmax))
        W = int(c.int('W', 1, Wmax))
        N = int(c.int('N', 1, 2))
        K = 2
        S = 2 if joint else 1
        lens = [int(c.int('L_%d' % s, max(W, W1), max(W, W1) + dT)) for s in range(S)]
        series = [np.zeros((L, N)) for L in lens]
        for a in series:
            a._b.owner = 'caller'
        install_la()
        which = 'joint' if joint else 'single'
        fe = Rp.front_end.ticc_joint_labels if joint else Rp.front_end.ticc_labels
        for (w, first) in ((W1, True), (W, False)):
            c.notes.update({'W': w, 'N': N, 'K': K, 'lens': lens, 'limit': 1, 'joint': joint})
            if not first:
                c.notes['W_first'] = W1
            ml = MainLoop(Rp, c, K, N * w, modes={'optimise': 'real', 'initial': 'summary'},
                          label_hook=self._hook(K, False))
            ml.s_initial = lambda k, d: [i % K for i in range(len(d))]
            with ml:
                ok, res = guarded(c, '%s_labels_shape_and_margins' % which, fe, list(series) if joint else series[0],
                                  window_size=w, num_clusters=K, iteration_limit=1, min_cluster_size=1,
                                  sparsity_weight=0.1, label_switching_cost=1.0)
            if not ok:
                return
            pl = res.point_labels if joint else [res.point_labels]
            if not isinstance(pl, list) or len(pl) != S or not all(isinstance(x, list) for x in pl):
                c.prove('%s_labels_shape_and_margins' % which, False,
                        detail={'n_entries': repr(len(pl)) if isinstance(pl, list) else repr(type(pl))})
                return
            self._judge(c, ml, res, pl, lens, w, N, K, which)

    def _judge(self, c, ml, res, label_lists, lens, W, N, K, which):
        joint = list(ml.relabel_states[-1].point_labels) if ml.relabel_states else None
        if ml.relabel_states and all(isinstance(x, int) for st in ml.relabel_states for x in st.point_labels):
            # positional pattern: the replay scripts exactly these labellings on the real build
            c.notes['round_labels'] = [[int(x) for x in st.point_labels] for st in ml.relabel_states]
        else:
            c.notes.pop('round_labels', None)
        front = (W - 1) // 2
        back = (W - 1) - front
        f = [joint is not None and len(joint) == sum(L - W + 1 for L in lens)]
        off = 0
        c.outputs['lengths'] = [len(x) for x in label_lists]
        if f[0]:
            for s, L in enumerate(lens):
                lab = label_lists[s]
                f.append(isinstance(lab, list) and len(lab) == L)
                if not f[-1]:
                    break
                for i in range(front):
                    f.append(stubs.same_terms(lab[i], -1))
                for i in range(back):
                    f.append(stubs.same_terms(lab[L - 1 - i], -1))
                for i in range(L - W + 1):
                    v = lab[front + i]
                    f.append(isinstance(v, (int, core.SymInt)) and not isinstance(v, bool))
                    if f[-1]:
                        f.append(z3.And(I(v) == I(joint[off + i]), I(v) >= 0, I(v) < K))
                off += L - W + 1
        c.prove('%s_labels_shape_and_margins' % which, conj(f))
        n = N * W
        last_opt = [t for t in ml.trace if t[1] == 'optimise'][-1][3]
        mrf = res.markov_random_fields
        g = [isinstance(mrf, list) and len(mrf) == K, stubs.same_terms(res.num_clusters, K),
             stubs.same_terms(res.window_size, W)]
        if g[0]:
            for k in range(K):
                g.append(isinstance(mrf[k], np.ndarray) and mrf[k].shape == (n, n))
                if g[-1]:
                    g.append(stubs.unchanged(stubs.snapshot(last_opt.clusters[k].train_inverse), mrf[k]))
        c.prove('%s_result_structure' % which, conj(g))


CHECK = C04()
