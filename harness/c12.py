"""C12 -- each cluster is fitted to exactly its own windows, with the requested estimator."""
import z3

from .base import *   # noqa
from . import states
from .mainloop import MainLoop


def sample_stats(data, members, n, biased):
    """Independent specification: mean_j and cov_jl written as E[xy]-style sums
    (not the centred form NumPy uses)."""
    cnt = len(members)
    mean = [rsum([R(data[i, j]) for i in members]) / cnt for j in range(n)]
    d = cnt if biased else cnt - 1
    cov = [[(rsum([R(data[i, j]) * R(data[i, l]) for i in members]) - cnt * mean[j] * mean[l]) / d
            for l in range(n)] for j in range(n)]
    return mean, cov


class C12(Check):
    pid = 'C12'
    validate = True
    fork_logging = True       # DEBUG logging on/off is a symbolic input of every path
    anchors = [('src/fast_ticc/cluster_maintenance.py', 'update_cluster_member_data_statistics'),
               ('src/fast_ticc/cluster_maintenance.py', 'update_all_cluster_statistics'),
               ('src/fast_ticc/graphical_lasso.py', 'optimize_markov_random_fields'),
               ('src/fast_ticc/graphical_lasso.py', '_setup_optimization_task'),
               ('src/fast_ticc/graphical_lasso.py', '_retrieve_optimization_results'),
               ('src/fast_ticc/graphical_lasso.py', '_update_cluster_covariances')]
    obligations = ['mean_and_covariance_of_own_windows', 'other_fields_untouched', 'stats_after_repopulation',
                   'task_gets_own_covariance_and_user_parameters', 'result_stored_in_own_cluster',
                   'every_round_fits_current_labels']
    obligation_text = {
        'mean_and_covariance_of_own_windows': 'for every k: stored mean/covariance == sample mean / sample covariance (divisor |C_k| if biased else |C_k|-1) over exactly {i: label_i = k}',
        'other_fields_untouched': 'membership, MRF, computed covariance of every cluster are the same objects as before; input state intact',
        'stats_after_repopulation': 'repopulate then update statistics: the statistics are those of the NEW membership',
        'task_gets_own_covariance_and_user_parameters': 'task k is submitted with (clusters[k].empirical_covariance, user sparsity weight, W, N) - the same objects, unchanged - and the documented keyword defaults',
        'every_round_fits_current_labels': 'in the real main loop, round after round (labels changing between rounds, estimator flag symbolic): the covariance object handed to optimiser task k is the one the real statistics step of THAT round computed from the labels current at that point, and those statistics are the sample statistics of exactly the windows labelled k',
        'result_stored_in_own_cluster': 'for every completion order: cluster k ends with train_inverse = floor-filter(reinflate(theta_k))',
    }
    stubs = ['np.cov/np.mean are the shim\'s written-out NumPy definitions (validated against real NumPy by witness replay)',
             'multiprocessing.Pool -> stub pool with solver-chosen completion order',
             'admm_optimize_theta -> arbitrary compressed vector, arguments recorded', 'np.linalg.inv/det -> opaque']
    assumptions = ['every cluster holds >= 2 windows (the unbiased estimator divides by |C|-1; the code asserts >= 1)',
                   'REAL arithmetic']
    outside_claim = ['P, K, n beyond the bounds', 'rounding of np.cov']
    canary = {'what': 'estimator flag ignored (always unbiased)',
              'edits': [('fast_ticc/cluster_maintenance.py', 'bias=use_biased_covariance\n    )\n    updated_cluster.stacked_data_mean',
                         'bias=False\n    )\n    updated_cluster.stacked_data_mean')]}

    def bounds(self, tier):
        if tier == 'quick':
            return {'statistics': 'P<=5 K=2 n in {1,2}; biased symbolic', 'tasks': 'K<=3, (N,W) in {(1,1),(2,1),(1,2)}, all completion orders',
                    'after repopulation': 'P=5,K=2,m=1', 'rounds with real repopulation': 'P=5, K=2, m=2, 3 rounds'}
        return {'statistics': 'P<=9 K<=4 n<=4 (13 shapes); biased symbolic', 'tasks': 'K<=5, (N,W) in {(1,1),(2,1),(1,2),(2,2),(1,3),(2,3)}, all completion orders',
                'after repopulation': 'P<=8,K<=3,m<=3', 'rounds with real repopulation': 'P in {5,6}, K=2, m in {2,3}, 3..4 rounds'}

    def configs(self, tier):
        q = tier == 'quick'
        cfgs = []
        for (P, K, n) in ([(4, 2, 1), (4, 2, 2), (5, 2, 2)] if q else
                          [(4, 2, 1), (4, 2, 2), (5, 2, 2), (6, 2, 2), (6, 3, 2), (6, 2, 3), (6, 3, 1), (7, 2, 2), (7, 3, 2),
                           (8, 2, 2), (8, 3, 1), (8, 4, 1), (7, 2, 3), (9, 2, 1), (6, 2, 4)]):
            cfgs.append(Config('stats_P%d_K%d_n%d' % (P, K, n), self.stats, {'P': P, 'K': K, 'n': n},
                               split=2, witness_every=3))
        for (P, K, mmax) in ([(5, 2, 1)] if q else [(5, 2, 2), (6, 3, 1), (6, 2, 2), (7, 3, 2), (8, 2, 3)]):
            cfgs.append(Config('repop_then_stats_P%d_K%d' % (P, K), self.after_repop, {'P': P, 'K': K, 'mmax': mmax},
                               split=3))
        for (K, N, W) in ([(2, 1, 1), (3, 2, 1), (2, 1, 2)] if q else
                          [(2, 1, 1), (3, 2, 1), (2, 1, 2), (4, 1, 1), (3, 2, 2), (3, 1, 3), (5, 1, 1), (4, 2, 1), (2, 2, 3)]):
            for lamform in ('scalar', 'matrix'):
                cfgs.append(Config('tasks_K%d_N%d_W%d_%s' % (K, N, W, lamform), self.tasks,
                                   {'K': K, 'N': N, 'W': W, 'lamform': lamform}))
        for lim in ((2,) if q else (2, 3)):
            cfgs.append(Config('round_flow_lim%d' % lim, self.round_flow, {'K': 2, 'P': 4, 'lim': lim}, nonlinear=True,
                               split=3))
        for (P, m, lim) in ([(5, 2, 3)] if q else [(5, 2, 3), (5, 2, 4), (6, 2, 3), (6, 3, 3)]):
            cfgs.append(Config('round_flow_repop_P%d_m%d_lim%d' % (P, m, lim), self.round_flow_repop,
                               {'P': P, 'm': m, 'lim': lim}, nonlinear=True, split=3))
        return cfgs

    def _judge_stats(self, c, name, new, labels, data, K, n, biased, prev):
        f = [len(new.clusters) == K]
        for k in range(K):
            members = [i for i, l in enumerate(labels) if l == k]
            mean, cov = sample_stats(data, members, n, biased)
            cl = new.clusters[k]
            mu = np.asarray(cl.stacked_data_mean)
            S = np.asarray(cl.empirical_covariance)
            f.append(mu.shape == (n,))
            f.append(S.shape == ((n, n) if n > 1 else ()))
            if not (f[-1] and f[-2]):
                return c.prove(name, False, detail={'shapes': [repr(mu.shape), repr(S.shape)]})
            for j in range(n):
                f.append(R(mu[j]) == mean[j])
                for l in range(n):
                    f.append(R(S[j, l] if n > 1 else S.item()) == cov[j][l])
        return c.prove(name, conj(f))

    def stats(self, c, P, K, n):
        Rp = self.R
        labels = [c.int('l_%d' % i, 0, K - 1) for i in range(P)]
        biased = c.bool('biased')
        data = stubs.sym_array(c, 'x', (P, n), writeable=False)
        args = states.user_args(Rp, K, biased=biased)
        st = states.fitted_state(Rp, c, K, n, labels, data, args, fit=False)
        labs = states.labels_of(st)
        if any(labs.count(k) < 2 for k in range(K)):
            raise core.PathAbort()
        for cl in st.clusters:
            cl.train_inverse = np.zeros((n, n))
            cl.computed_covariance = np.zeros((n, n))
        fz = states.freeze(st)
        ok, new = guarded(c, 'mean_and_covariance_of_own_windows', Rp.cm.update_all_cluster_statistics, st, data)
        if not ok:
            return
        b = bool(biased)
        c.notes.update({'P': P, 'K': K, 'n': n, 'labels': labs, 'biased': b})
        c.outputs['mean'] = [np.asarray(cl.stacked_data_mean).tolist() for cl in new.clusters]
        c.outputs['cov'] = [np.asarray(cl.empirical_covariance).tolist() for cl in new.clusters]
        self._judge_stats(c, 'mean_and_covariance_of_own_windows', new, labs, data, K, n, b, st)
        g = [new is not st, states.intact(st, fz), states.invariant(new, K, P)]
        for k in range(K):
            g.append(new.clusters[k].train_inverse is st.clusters[k].train_inverse)
            g.append(new.clusters[k].computed_covariance is st.clusters[k].computed_covariance)
        c.prove('other_fields_untouched', conj(g))

    def after_repop(self, c, P, K, mmax):
        Rp = self.R
        from .c08 import SpreadOracle
        n = 1
        m = c.int('m', 1, mmax)
        labels = [c.int('l_%d' % i, 0, K - 1) for i in range(P)]
        data = stubs.sym_array(c, 'x', (P, n), writeable=False)
        args = states.user_args(Rp, K, m=m, biased=True)
        st = states.fitted_state(Rp, c, K, n, labels, data, args, fit=False)
        for k, cl in enumerate(st.clusters):
            cl.computed_covariance = np.array([float(k)])
        labs = states.labels_of(st)
        if all(labs.count(k) >= 2 for k in range(K)):
            raise core.PathAbort()        # no repopulation event on this labelling
        stubs.install_linalg(norm=SpreadOracle(c, K))
        rnd = stubs.StubRandom()
        old = Rp.cm.random
        Rp.cm.random = rnd
        try:
            try:
                mid = Rp.cm.repopulate_empty_clusters(st)
            except RuntimeError:
                raise core.PathAbort()
        finally:
            Rp.cm.random = old
        labs2 = states.labels_of(mid)
        if any(labs2.count(k) < 1 for k in range(K)):
            raise core.PathAbort()
        ok, new = guarded(c, 'stats_after_repopulation', Rp.cm.update_all_cluster_statistics, mid, data)
        if not ok:
            return
        c.notes.update({'P': P, 'K': K, 'n': n, 'labels': labs, 'm': int(m)})
        self._judge_stats(c, 'stats_after_repopulation', new, labs2, data, K, n, True, mid)

    def round_flow(self, c, K, P, lim):
        Rp = self.R
        n = 1
        data = stubs.sym_array(c, 'x', (P, n), writeable=False)
        biased = c.bool('biased')
        # per-round labellings: every cluster keeps >= 2 points so that both estimators are defined
        pats = [[0, 0, 1, 1], [0, 1, 0, 1], [1, 1, 0, 0]]
        stubs.install_linalg()
        ml = MainLoop(Rp, c, K, n, modes={'initial': 'summary', 'statistics': 'real', 'optimise': 'real'},
                      label_hook=lambda r, T: list(pats[(r + 1) % 3]))
        ml.s_initial = lambda k, d: list(pats[0])
        c.notes.update({'kind': 'round_flow', 'K': K, 'P': P, 'limit': lim, 'biased': bool(biased)})
        with ml:
            ok, res = guarded(c, 'every_round_fits_current_labels', Rp.front_end.ticc_labels, data, window_size=1,
                              num_clusters=K, iteration_limit=lim, min_cluster_size=1, sparsity_weight=0.1,
                              label_switching_cost=1.0, biased_covariance=biased)
        if not ok:
            return
        b = bool(biased)
        stats = [t for t in ml.trace if t[1] == 'statistics']
        f = [len(stats) == lim, len(ml.admm_calls) == lim * K]
        if all(f):
            for r, t in enumerate(stats):
                labs = [int(x) for x in t[2].point_labels]
                f.append(labs == pats[r % 3] if r > 0 else labs == pats[0])
                out = t[3]
                for k in range(K):
                    a = ml.admm_calls[r * K + k][0]
                    f.append(a[0] is out.clusters[k].empirical_covariance)
                    members = [i for i, l in enumerate(labs) if l == k]
                    mean, cov = sample_stats(data, members, n, b)
                    f.append(R(np.asarray(out.clusters[k].stacked_data_mean)[0]) == mean[0])
                    f.append(R(np.asarray(out.clusters[k].empirical_covariance).item()) == cov[0][0])
        c.notes.update({'kind': 'round_flow', 'K': K, 'P': P, 'limit': lim, 'biased': b})
        c.prove('every_round_fits_current_labels', conj(f))

    def round_flow_repop(self, c, P, m, lim):
        """Like round_flow, but every second relabelling empties cluster 1, so the following round
        starts with a REAL repopulation; the sparsity weight is a symbol distinct from beta."""
        Rp = self.R
        K, n = 2, 1
        data = stubs.sym_array(c, 'x', (P, n), writeable=False)
        biased = c.bool('biased')
        lam, beta = c.real('lam', 0), c.real('beta', 0)
        c.assume(R(lam) != R(beta))
        stubs.install_linalg(norm=stubs.NormOracle('spread'))
        ml = MainLoop(Rp, c, K, n, modes={'initial': 'summary', 'statistics': 'real', 'optimise': 'real',
                                          'repopulate': 'real'},
                      label_hook=lambda r, T: [0] * T if r % 2 == 0 else [(i + r) % K for i in range(T)])
        ml.s_initial = lambda k, d: [i % K for i in range(len(d))]
        c.notes.update({'kind': 'round_flow_repop', 'K': K, 'P': P, 'limit': lim, 'biased': bool(biased), 'm': m})
        old_random = Rp.cm.random
        Rp.cm.random = stubs.StubRandom()
        try:
            with ml:
                ok, res = guarded(c, 'every_round_fits_current_labels', Rp.front_end.ticc_labels, data,
                                  window_size=1, num_clusters=K, iteration_limit=lim, min_cluster_size=m,
                                  sparsity_weight=lam, label_switching_cost=beta, biased_covariance=biased)
        finally:
            Rp.cm.random = old_random
        if not ok:
            return
        b = bool(biased)
        stats = [t for t in ml.trace if t[1] == 'statistics']
        f = [len(stats) == lim, len(ml.admm_calls) == lim * K,
             any(t[1] == 'repopulate' and t[3] is not t[2] for t in ml.trace)]
        if all(f):
            for r, t in enumerate(stats):
                labs = [int(x) for x in t[2].point_labels]
                out = t[3]
                for k in range(K):
                    a = ml.admm_calls[r * K + k][0]
                    f.append(len(a) == 4 and a[0] is out.clusters[k].empirical_covariance)
                    f.append(stubs.same_terms(a[1], lam))
                    f.append(stubs.same_terms(a[2], 1) and stubs.same_terms(a[3], n))
                    members = [i for i, l in enumerate(labs) if l == k]
                    f.append(len(members) >= 2)
                    if not f[-1]:
                        break
                    mean, cov = sample_stats(data, members, n, b)
                    f.append(R(np.asarray(out.clusters[k].stacked_data_mean)[0]) == mean[0])
                    f.append(R(np.asarray(out.clusters[k].empirical_covariance).item()) == cov[0][0])
        c.notes.update({'kind': 'round_flow_repop', 'K': K, 'P': P, 'limit': lim, 'biased': b, 'm': m})
        c.prove('every_round_fits_current_labels', conj(f))

    def tasks(self, c, K, N, W, lamform):
        Rp = self.R
        n = N * W
        P = K
        data = np.zeros((P, n))
        if lamform == 'scalar':
            lam = c.real('lam', 0)
        else:
            lam = stubs.sym_symmetric(c, 'lam', n)
        eps = c.real('eps', 0)
        args = states.user_args(Rp, K, W=W, lam=lam, eps=eps)
        st = states.fitted_state(Rp, c, K, n, [k for k in range(K)], data, args)
        fz = states.freeze(st)
        lam_snap = stubs.snapshot(lam)
        stubs.install_linalg(inv=stubs.inv_uninterpreted, det=lambda M: core.SymReal(core.ctx().fresh_real('det')))
        ml = MainLoop(Rp, c, K, n, schedule='symbolic', modes={'optimise': 'real'})
        ml.install()
        try:
            pool = stubs.StubPool(processes=1)
            ok, new = guarded(c, 'result_stored_in_own_cluster', Rp.gl.optimize_markov_random_fields, st, data, pool)
        finally:
            ml.restore()
        if not ok:
            return
        c.notes.update({'K': K, 'N': N, 'W': W, 'order': list(pool.completion_order)})
        calls = ml.admm_calls
        f = [len(calls) == K, len(pool.tasks) == K]
        if all(f):
            # calls happen in completion order; submission order is pool.tasks
            for k, t in enumerate(pool.tasks):
                a = t.args
                f.append(len(a) == 4 and a[0] is st.clusters[k].empirical_covariance and a[1] is lam)
                if not f[-1]:
                    break
                f.append(stubs.same_terms(a[2], W))
                f.append(stubs.same_terms(a[3], N))
                f.append(isinstance(a[3], int))
                kw = t.kwds
                f.append(set(kw) <= {'rho', 'rho_update', 'max_iterations', 'relative_tolerance',
                                     'absolute_tolerance', 'verbose'})
                f.append(kw.get('rho', 1) == 1 and kw.get('rho_update') is None
                         and kw.get('max_iterations', 1000) == 1000
                         and kw.get('relative_tolerance', 1e-6) == 1e-6
                         and kw.get('absolute_tolerance', 1e-6) == 1e-6 and not kw.get('verbose', False))
            f.append(stubs.unchanged(lam_snap, lam))
            f.append(states.intact(st, fz))
        c.prove('task_gets_own_covariance_and_user_parameters', conj(f))
        g = [new is not st, len(new.clusters) == K, states.invariant(new, K, P)]
        if all(g) and len(calls) == K:
            theta_of = {}
            for (a, kw, theta) in calls:
                for k in range(K):
                    if a[0] is st.clusters[k].empirical_covariance:
                        theta_of[k] = theta
            g.append(len(theta_of) == K)
            if g[-1]:
                for k in range(K):
                    Th = np.asarray(new.clusters[k].train_inverse)
                    g.append(Th.shape == (n, n))
                    if not g[-1]:
                        break
                    idx = 0
                    for i in range(n):
                        for j in range(i, n):
                            t = R(theta_of[k][idx])
                            want = z3.If(z3.And(t < R(eps), t > -R(eps)), z3.RealVal(0), t)
                            g.append(R(Th[i, j]) == want)
                            g.append(R(Th[j, i]) == want)
                            idx += 1
                    g.append(new.clusters[k].empirical_covariance is st.clusters[k].empirical_covariance)
                    g.append(new.clusters[k].stacked_data_mean is st.clusters[k].stacked_data_mean)
        c.prove('result_stored_in_own_cluster', conj(g))


CHECK = C12()
