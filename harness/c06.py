"""C06 -- result fields are mutually consistent (cost and likelihood accounting)."""
import math

import z3

from .base import *   # noqa
from . import states, logdet
from .mainloop import MainLoop
from .c05 import gauss_logpdf


def data_pattern(i, j, s=0):
    return float(((i * 3 + j * 5 + s * 2) % 7) - 3) / 2.0


def mean_pattern(r, k, j):
    return float(((r * 2 + k * 3 + j) % 5) - 2) / 2.0


class C06(Check):
    pid = 'C06'
    validate = True
    fork_logging = True       # DEBUG logging on/off is a symbolic input of every path
    anchors = [('src/fast_ticc/main_loop.py', 'fit_stacked_data'),
               ('src/fast_ticc/main_loop.py', '_compute_log_likelihood_by_cluster'),
               ('src/fast_ticc/cluster_label_assignment.py', 'predict_cluster_labels'),
               ('src/fast_ticc/cluster_label_assignment.py', 'assign_point_cluster_labels'),
               ('src/fast_ticc/likelihood.py', 'point_log_likelihood'),
               ('src/fast_ticc/front_end.py', '_split_combined_result')]
    obligations = ['one_likelihood_entry_per_labelled_point', 'entries_are_own_cluster_densities',
                   'overall_sum_mean_median', 'cluster_mean_median', 'cost_is_minus_loglik_plus_switching',
                   'joint_result_copies_aggregates']
    obligation_text = {
        'one_likelihood_entry_per_labelled_point': 'len(all_log_likelihood) == number of labelled points',
        'entries_are_own_cluster_densities': 'the entries are exactly the densities of each point under its own cluster (mean, MRF, ln det of that MRF), grouped by cluster',
        'overall_sum_mean_median': 'overall sum / mean / median are those of exactly the per-point entries',
        'cluster_mean_median': 'cluster k mean / median over exactly the points labelled k, 0 if it has none',
        'cost_is_minus_loglik_plus_switching': 'label_assignment_cost == -overall_log_likelihood + sum of beta over consecutive within-series pairs with different labels',
        'joint_result_copies_aggregates': 'the multi-series result carries every aggregate field of the combined run unchanged',
    }
    stubs = ['statistics/optimise phases summarised: per cluster and round an arbitrary (symbolic, diagonally dominant hence positive definite) MRF with an arbitrary ln det symbol; data and cluster means are fixed distinct patterns so that every obligation is linear arithmetic',
             'relabel phase, kernel, likelihood kernels, result assembly and repopulation: real (spread ranking and random draw symbolic)', 'slogdet/det -> opaque ln det symbol per matrix (same stub serves code and specification)',
             'metrics real (they run between the last relabel and the result assembly and must not disturb the state that is reported); stub pool; initial labels fixed pattern']
    assumptions = ['REAL arithmetic; LOG uninterpreted']
    outside_claim = ['T, K, n beyond bounds; rounding']
    canary = {'what': 'overall mean divides by the number of clusters\' lists instead of entries (uses cluster list)',
              'edits': [('fast_ticc/main_loop.py', 'overall_log_likelihood_mean = np.mean(all_log_likelihood)',
                         'overall_log_likelihood_mean = np.sum(all_log_likelihood) / max(len(all_log_likelihood) - 1, 1)')]}

    def bounds(self, tier):
        if tier == 'quick':
            return {'single': 'T<=3,K=2,n=1, beta scalar|vector, limit 1..2', 'joint': '2 series of 1..2 windows, K=2'}
        return {'single': 'T<=4,K<=3,n<=2, beta scalar|vector, limit 1 (limit 2 for K^T <= 8)', 'joint': '2..3 series of 1..2 windows, K=2'}

    def configs(self, tier):
        q = tier == 'quick'
        cfgs = []
        for (T, K, n) in ([(2, 2, 1), (3, 2, 1)] if q else [(2, 2, 1), (3, 2, 1), (4, 2, 1), (3, 3, 1), (3, 2, 2), (4, 3, 1)]):
            for form in ('scalar', 'vector'):
                for lim in ((1, 2) if K ** T <= 8 else (1,)):
                    cfgs.append(Config('single_T%d_K%d_n%d_%s_lim%d' % (T, K, n, form, lim), self.single,
                                       {'T': T, 'K': K, 'n': n, 'form': form, 'lim': lim},
                                       split=4, witness_every=5, robust=True))
        for lens in ([(1, 2), (2, 2)] if q else [(1, 2), (2, 2), (2, 1, 1), (1, 1, 2)]):
            cfgs.append(Config('joint_' + '_'.join(map(str, lens)), self.joint, {'lens': list(lens), 'K': 2},
                               split=4, witness_every=5, robust=True))
        return cfgs

    def _run(self, c, call, K, n, lim):
        Rp = self.R
        self.ld = logdet.OpaqueLogDet(c)
        stubs.install_linalg(det=self.ld.det, slogdet=self.ld.slogdet, inv=stubs.inv_uninterpreted,
                             norm=stubs.NormOracle('spread'))
        # repopulation is real (min_cluster_size 1, any spread ranking, any draw): a run may go through
        # repopulation events, and one that ends with an under-populated cluster must not be touched again
        ml = MainLoop(Rp, c, K, n, modes={'relabel': 'real', 'point_ll': 'real', 'initial': 'summary',
                                          'repopulate': 'real', 'bic': 'real', 'ch': 'real'},
                      spd='dominant', concrete_mean=mean_pattern)
        ml.s_initial = lambda k, d: [i % K for i in range(len(d))]
        old_random = Rp.cm.random
        Rp.cm.random = stubs.StubRandom()
        try:
            with ml:
                try:
                    ok, res = guarded(c, 'one_likelihood_entry_per_labelled_point', call, _allow=(RuntimeError,))
                except RuntimeError:
                    raise core.PathAbort()          # no donor: the run does not complete (C20's subject)
        finally:
            Rp.cm.random = old_random
        return ok, res, ml

    def _judge(self, c, res, ml, data, K, n, beta_pairs, T):
        """beta_pairs[i] = switching cost the property attaches to pair (i,i+1) (0 across series)."""
        final = ml.relabel_states[-1] if ml.relabel_states else None
        # the relabel phase ran for real: the last 'relabel' trace entry is the state that was scored
        last = [t for t in ml.trace if t[1] == 'relabel'][-1][3]
        labs = [int(l) for l in last.point_labels]
        c.notes['labels'] = labs
        all_ll = res.all_log_likelihood
        c.outputs['n_entries'] = len(all_ll)
        if not c.prove('one_likelihood_entry_per_labelled_point', len(all_ll) == T):
            return
        # expected densities, grouped by cluster then point id
        dens = {}
        for i, l in enumerate(labs):
            cl = last.clusters[l]
            dens[i] = gauss_logpdf(data[i], cl.stacked_data_mean, cl.train_inverse,
                                   R(self.ld.logdet(cl.train_inverse)), n)
        order = [i for k in range(K) for i in range(T) if labs[i] == k]
        c.prove('entries_are_own_cluster_densities', conj([R(all_ll[j]) == dens[i] for j, i in enumerate(order)]))
        ents = [core.SymReal(dens[i]) for i in order]
        tot = rsum([dens[i] for i in order])
        f = [R(res.overall_log_likelihood) == tot, R(res.overall_log_likelihood_mean) == tot / T,
             R(res.overall_log_likelihood_median) == R(np._median_list(ents))]
        c.prove('overall_sum_mean_median', conj(f))
        g = [len(res.cluster_log_likelihood_mean) == K, len(res.cluster_log_likelihood_median) == K]
        if all(g):
            for k in range(K):
                mine = [core.SymReal(dens[i]) for i in range(T) if labs[i] == k]
                if mine:
                    g.append(R(res.cluster_log_likelihood_mean[k]) == rsum([R(v) for v in mine]) / len(mine))
                    g.append(R(res.cluster_log_likelihood_median[k]) == R(np._median_list(mine)))
                else:
                    g.append(R(res.cluster_log_likelihood_mean[k]) == 0)
                    g.append(R(res.cluster_log_likelihood_median[k]) == 0)
        c.prove('cluster_mean_median', conj(g))
        sw = rsum([R(beta_pairs[i]) for i in range(T - 1) if labs[i] != labs[i + 1]])
        c.prove('cost_is_minus_loglik_plus_switching', R(res.label_assignment_cost) == -tot + sw)

    def single(self, c, T, K, n, form, lim):
        Rp = self.R
        data = stubs.const_array([[data_pattern(i, j) for j in range(n)] for i in range(T)])
        data._b.writeable = False
        if form == 'scalar':
            b = c.real('b', 0)
            pairs = [b] * T
        else:
            b = stubs.sym_array(c, 'b', (T,), lo=0)
            pairs = [b[i] for i in range(T)]
        c.notes.update({'T': T, 'K': K, 'n': n, 'form': form, 'lim': lim, 'lens': [T], 'joint': False})
        call = lambda: Rp.front_end.ticc_labels(data, window_size=1, num_clusters=K, iteration_limit=lim,
                                                min_cluster_size=1, sparsity_weight=0.1, label_switching_cost=b)
        ok, res, ml = self._run(c, call, K, n, lim)
        if not ok:
            return
        self._judge(c, res, ml, data, K, n, pairs, T)

    def joint(self, c, lens, K):
        Rp = self.R
        n = 1
        T = sum(lens)
        series = [stubs.const_array([[data_pattern(i, j, s) for j in range(n)] for i in range(L)])
                  for s, L in enumerate(lens)]
        b = c.real('b', 0)
        c.notes.update({'T': T, 'K': K, 'n': n, 'form': 'scalar', 'lim': 1, 'lens': lens, 'joint': True})
        call = lambda: Rp.front_end.ticc_joint_labels(list(series), window_size=1, num_clusters=K, iteration_limit=1,
                                                      min_cluster_size=1, sparsity_weight=0.1, label_switching_cost=b)
        ok, res, ml = self._run(c, call, K, n, 1)
        if not ok:
            return
        data = np.vstack(series)
        ends = set()
        acc = 0
        for L in lens[:-1]:
            acc += L
            ends.add(acc - 1)           # pair (acc-1, acc) straddles a boundary
        pairs = [0 if i in ends else b for i in range(T)]
        master = [t for t in ml.trace if t[1] == 'relabel'][-1][3]
        self._judge(c, res, ml, data, K, n, pairs, T)
        f = [stubs.same_terms(res.label_assignment_cost, master.label_assignment_cost),
             len(res.point_labels) == len(lens)]
        c.prove('joint_result_copies_aggregates', conj(f))


CHECK = C06()
