"""C02 -- cluster MRF is the block-Toeplitz graphical-lasso optimum.

Decided in part: the *conditional* clause, decomposed into per-step exactness
obligations of the ADMM iteration from which epsilon-optimality at the
stopping rule follows by the standard residual argument (Boyd et al. 2010,
section 3.3: with the X-step solving its prox problem exactly, the Z-step
being the exact minimiser over block-Toeplitz Z and U the running sum of
residuals, ||x-z|| <= eps_pri and ||rho (z - z_old)|| <= eps_dual bound the
primal and dual infeasibility of the KKT system by the tolerances).  That
last passage is cited reasoning, not a solver result.  The unconditional
convergence clause is outside the claim (DESIGN.md section 6).
"""
import z3

from .base import *   # noqa
from . import states
from .c11 import rank_spec


def soft_threshold_merged(s, Q, rr):
    """The Z-update scalar prox as one If-term (proved equal to the real
    soft_threshold_prox in obligation 1; used as its summary afterwards)."""
    s_, Q_, r_ = R(s), R(Q), R(rr)
    return core.mk_real(z3.If(s_ > Q_, (s_ - Q_) / r_, z3.If(s_ < -Q_, (s_ + Q_) / r_, z3.RealVal(0))))


def class_positions(b, r, col, N, W):
    return [(i * N + r, (b + i) * N + col) for i in range(W - b)]


def tri_index(R_, C_, n):
    return R_ * n - R_ * (R_ - 1) // 2 + (C_ - R_)


class EighStub:
    def __init__(self, c, mode):
        self.c, self.mode, self.calls = c, mode, []

    def __call__(self, M):
        c = self.c
        M = np.asarray(M)
        n = M.shape[0]
        d = [c.real('eig_%d_%d' % (len(self.calls), i)) for i in range(n)]
        if self.mode == 'identity':
            q = [[1.0 if i == j else 0.0 for j in range(n)] for i in range(n)]
        else:
            q = [[c.real('q_%d_%d_%d' % (len(self.calls), i, j)) for j in range(n)] for i in range(n)]
            for i in range(n):
                for j in range(i, n):
                    c.assume(rsum([R(q[i][k]) * R(q[j][k]) for k in range(n)]) == (1 if i == j else 0))
                    c.assume(rsum([R(q[k][i]) * R(q[k][j]) for k in range(n)]) == (1 if i == j else 0))
        # LAPACK's contract in exact arithmetic: M = q diag(d) q^T
        for i in range(n):
            for j in range(n):
                c.assume(R(M[i, j]) == rsum([R(q[i][k]) * R(d[k]) * R(q[j][k]) for k in range(n)]))
        self.calls.append((M, d, q))
        return (np.array(d), np.array(q))


class C02(Check):
    pid = 'C02'
    validate = True
    fork_logging = True       # DEBUG logging on/off is a symbolic input of every path
    anchors = [('src/fast_ticc/admm/solver.py', 'soft_threshold_prox'), ('src/fast_ticc/admm/solver.py', 'compute_lambda_sum'),
               ('src/fast_ticc/admm/solver.py', 'admm_update_z'), ('src/fast_ticc/admm/solver.py', 'admm_update_u'),
               ('src/fast_ticc/admm/solver.py', 'admm_update_x'), ('src/fast_ticc/admm/solver.py', 'x_update_prox'),
               ('src/fast_ticc/admm/solver.py', 'check_convergence'),
               ('src/fast_ticc/admm/solver.py', 'run_admm_optimization'),
               ('src/fast_ticc/admm/front_end.py', 'admm_optimize_theta')]
    obligations = ['soft_threshold_is_exact_prox', 'lambda_sum_is_class_sum', 'z_update_covers_and_is_block_toeplitz',
                   'z_update_is_classwise_minimiser', 'u_update_is_running_residual', 'x_update_decomposes_right_matrix',
                   'x_update_eigenvalue_stationarity', 'x_update_orientation_and_scale', 'x_update_kkt_from_stationarity_and_orientation',
                   'stopping_rule_is_boyd_residual_test',
                   'driver_matches_reference_iteration', 'front_end_forwards_parameters']
    obligation_text = {
        'soft_threshold_is_exact_prox': 'for all s, Q>=0, rhoR>0: z = soft_threshold_prox satisfies z>0 => rhoR z = s-Q; z<0 => rhoR z = s+Q; z=0 => |s|<=Q, and equals the merged If-term used as its summary',
        'lambda_sum_is_class_sum': 'compute_lambda_sum == lambda*(W-b) (scalar) == sum of Lambda over the independently specified class positions (matrix)',
        'z_update_covers_and_is_block_toeplitz': 'every compressed index is written, all positions of a class carry the same value',
        'z_update_is_classwise_minimiser': 'per class: rho (R z - sum_p (x_p+u_p)) + (sum_p Lambda_p) d|z| contains 0, i.e. Z is the exact minimiser of ||Lambda o Z||_1 + rho/2 ||Z-(X+U)||^2 over block-Toeplitz Z',
        'u_update_is_running_residual': 'u + x - z entrywise',
        'x_update_decomposes_right_matrix': 'the matrix handed to eigh is exactly rho*reinflate(z-u) - S',
        'x_update_eigenvalue_stationarity': 'with q=I: every output eigenvalue t satisfies rho t^2 - d t - 1 = 0 and t > 0 (stationarity of -log det + tr(S Theta) + rho/2 ||Theta-(Z-U)||^2)',
        'x_update_orientation_and_scale': 'with a symbolic 2x2 q and symbolic d: the matrix handed to eigh is M, and the output is exactly q diag(t) q^T with t_k the code\'s own eigenvalue map of d_k (orientation q D q^T, scale 1/(2 rho))',
        'x_update_kkt_from_stationarity_and_orientation': 'algebraic lemma (n=2): Theta = q diag(t) q^T, M = q diag(d) q^T, q orthogonal, rho t^2 - d t - 1 = 0 imply (rho Theta - M) Theta = I, the stationarity condition of the X-step objective',
        'stopping_rule_is_boyd_residual_test': 'should_stop <=> ||x-z|| <= eps_pri and ||rho(z-z_old)|| <= eps_dual with the documented tolerances; the four returned numbers are those',
        'driver_matches_reference_iteration': 'run_admm_optimization == a 15-line reference driver (X(u,z,S), Z(u,x), U(u,x,z); stop test from the 2nd iteration; rho callback only when not converged, rescaling u so that rho*u is preserved); returns x of the last executed iteration',
        'front_end_forwards_parameters': 'admm_optimize_theta hands every user parameter to the driver unchanged',
    }
    stubs = ['np.linalg.eigh -> (d, q) with M = q diag(d) q^T assumed; q = I or symbolic orthogonal 2x2',
             'np.linalg.norm -> exact Euclidean norm (fresh r>=0, r^2 = sum of squares)',
             'soft_threshold_prox summarised by its merged If-term inside admm_update_z (equivalence proved in the same run)',
             'admm_update_x summarised as an arbitrary vector (arguments recorded) inside the driver differential']
    assumptions = ['REAL arithmetic', 'rho > 0; lambda >= 0', 'the passage from per-step exactness to epsilon-optimality is the cited textbook argument']
    outside_claim = ['the unconditional convergence clause (rate statement over <=1000 eigendecompositions)',
                     'NW beyond the bounds', 'rounding', 'LAPACK accuracy']
    canary = {'what': 'number of occurrences of a class taken as W instead of W-b in the Z-update',
              'edits': [('fast_ticc/admm/solver.py', '        num_occurrences = num_blocks - block_id\n        for row in range(block_size):',
                         '        num_occurrences = num_blocks\n        for row in range(block_size):')]}

    def _nw(self, tier):
        q = [(1, 1), (1, 2), (2, 1), (1, 3), (2, 2)]
        return q if tier == 'quick' else q + [(3, 1), (1, 4), (2, 3), (3, 2), (3, 3), (2, 4), (4, 2), (1, 6)]

    def bounds(self, tier):
        return {'(N,W)': self._nw(tier), 'lambda forms': ['scalar', 'symmetric matrix'], 'rho': 'symbolic > 0',
                'x-update q=I': 'n<=3' if tier == 'quick' else 'n<=6', 'x-update orthogonal q': 'n=2',
                'stopping rule': 'compressed length 1,3' if tier == 'quick' else 'compressed length 1,3,6 (length 10 does not finish in 25 min: outside the claim)',
                'driver': 'compressed length 1..3, max_iterations 1..%d, with/without rho_update' % (3 if tier == 'quick' else 4)}

    def configs(self, tier):
        cfgs = [Config('soft_threshold', self.soft, {}, nonlinear=True, witness_every=1, robust=True)]
        for (N, W) in self._nw(tier):
            for lam in ('scalar', 'matrix'):
                cfgs.append(Config('z_update_N%d_W%d_%s' % (N, W, lam), self.zupdate, {'N': N, 'W': W, 'lam': lam},
                                   nonlinear=True, witness_every=1, robust=True))
        for n in ([1, 2, 3] if tier == 'quick' else [1, 2, 3, 4, 5, 6]):
            cfgs.append(Config('x_update_identity_n%d' % n, self.xupdate_identity, {'n': n}, nonlinear=True,
                               witness_every=1))
        cfgs.append(Config('x_update_orthogonal_n2', self.xupdate_orth, {}, nonlinear=True, prove_timeout_ms=240000,
                           fork_ite=True, split=1))
        cfgs.append(Config('x_update_kkt_lemma_n2', self.kkt_lemma, {'n': 2}, nonlinear=True, prove_timeout_ms=240000))
        for L in ([1, 3] if tier == 'quick' else [1, 3, 6]):
            cfgs.append(Config('convergence_L%d' % L, self.convergence, {'L': L}, nonlinear=True, witness_every=2))
        for cb in (False, True):
            cfgs.append(Config('driver_cb%d' % cb, self.driver, {'cb': cb, 'maxit': 3 if tier == 'quick' else 4}, nonlinear=True, split=3))
            # the covariance handed over as an INTEGER array (hand-typed values): the iterates are still reals
            cfgs.append(Config('driver_int_covariance_cb%d' % cb, self.driver, {'cb': cb, 'maxit': 3, 'S_kind': 'int'},
                               nonlinear=True, split=3))
        cfgs.append(Config('front_end', self.front_end, {}))
        return cfgs

    def _args(self, c, N, W, lam, rho=None, **kw):
        return self.R.arguments.ADMMArguments(
            window_size=W, num_data_series=N, rho=rho if rho is not None else c.real('rho', 0),
            rho_update=kw.get('rho_update'), sparsity_weight=lam, absolute_tolerance=kw.get('atol', 1e-6),
            relative_tolerance=kw.get('rtol', 1e-6), max_iterations=kw.get('maxit', 1000), verbose=False)

    # 1
    def soft(self, c):
        s, Q, rr = c.real('s'), c.real('Q', 0), c.real('rr')
        c.assume(R(rr) > 0)
        ok, z = guarded(c, 'soft_threshold_is_exact_prox', self.R.solver.soft_threshold_prox, s, Q, rr)
        if not ok:
            return
        c.notes['kind'] = 'soft'
        c.outputs['z'] = z
        z_, s_, Q_, r_ = R(z), R(s), R(Q), R(rr)
        kkt = z3.And(z3.Implies(z_ > 0, r_ * z_ == s_ - Q_), z3.Implies(z_ < 0, r_ * z_ == s_ + Q_),
                     z3.Implies(z_ == 0, z3.And(s_ <= Q_, s_ >= -Q_)))
        c.prove('soft_threshold_is_exact_prox', z3.And(kkt, z_ == R(soft_threshold_merged(s, Q, rr))))

    # 2 + 3
    def zupdate(self, c, N, W, lam):
        Rp = self.R
        n = N * W
        L = n * (n + 1) // 2
        rho = c.real('rho')
        c.assume(R(rho) > 0)
        if lam == 'scalar':
            lamv = c.real('lam', 0)
            Lam = None
        else:
            lamv = stubs.sym_symmetric(c, 'lam', n)
            for v in lamv._flat():
                c.assume(R(v) >= 0)
            lamv._b.writeable = False
            Lam = lamv
        x = stubs.sym_array(c, 'x', (L,), writeable=False)
        u = stubs.sym_array(c, 'u', (L,), writeable=False)
        args = self._args(c, N, W, lamv, rho=rho)
        # obligation 2 on every class, through the real function
        f2 = []
        for b in range(W):
            for r in range(N):
                for col in range(r if b == 0 else 0, N):
                    ok, got = guarded(c, 'lambda_sum_is_class_sum', Rp.solver.compute_lambda_sum, lamv, b, r, col, N, W)
                    if not ok:
                        return
                    pos = class_positions(b, r, col, N, W)
                    want = R(lamv) * (W - b) if Lam is None else rsum([R(Lam[p[0], p[1]]) for p in pos])
                    f2.append(R(got) == want)
        c.prove('lambda_sum_is_class_sum', conj(f2))
        real_st = Rp.solver.soft_threshold_prox
        Rp.solver.soft_threshold_prox = soft_threshold_merged
        try:
            ok, z = guarded(c, 'z_update_covers_and_is_block_toeplitz', Rp.solver.admm_update_z, args, u, x)
        finally:
            Rp.solver.soft_threshold_prox = real_st
        if not ok:
            return
        c.notes.update({'kind': 'z', 'N': N, 'W': W, 'lam': lam})
        c.outputs['z'] = z
        if not c.prove('z_update_covers_and_is_block_toeplitz', isinstance(z, np.ndarray) and z.shape == (L,)):
            return
        cover, opt = [], []
        seen = set()
        for b in range(W):
            for r in range(N):
                for col in range(r if b == 0 else 0, N):
                    pos = class_positions(b, r, col, N, W)
                    idx = [tri_index(p[0], p[1], n) for p in pos]
                    seen.update(idx)
                    z0 = R(z[idx[0]])
                    for k in idx[1:]:
                        cover.append(R(z[k]) == z0)
                    S = rsum([R(x[k]) + R(u[k]) for k in idx])
                    Q = R(lamv) * (W - b) if Lam is None else rsum([R(Lam[p[0], p[1]]) for p in pos])
                    Rn = len(pos)
                    g = R(rho) * (Rn * z0 - S)
                    opt.append(z3.And(z3.Implies(z0 > 0, g + Q == 0), z3.Implies(z0 < 0, g - Q == 0),
                                      z3.Implies(z0 == 0, z3.And(R(rho) * S <= Q, R(rho) * S >= -Q))))
        cover.append(seen == set(range(L)))
        c.prove('z_update_covers_and_is_block_toeplitz', conj(cover))
        c.prove('z_update_is_classwise_minimiser', conj(opt))
        # 4
        ok, unew = guarded(c, 'u_update_is_running_residual', Rp.solver.admm_update_u, u, x, z)
        if ok:
            c.prove('u_update_is_running_residual',
                    conj([unew.shape == (L,)] + [R(unew[k]) == R(u[k]) + R(x[k]) - R(z[k]) for k in range(L)]))

    # 5a + 5b
    def xupdate_identity(self, c, n):
        Rp = self.R
        L = n * (n + 1) // 2
        rho = c.real('rho')
        c.assume(R(rho) > 0)
        S = stubs.sym_symmetric(c, 'S', n)
        S._b.writeable = False
        z = stubs.sym_array(c, 'z', (L,), writeable=False)
        u = stubs.sym_array(c, 'u', (L,), writeable=False)
        eig = EighStub(c, 'identity')
        stubs.install_linalg(eigh=eig)
        args = self._args(c, 1, n, 0.1, rho=rho)
        ok, xnew = guarded(c, 'x_update_decomposes_right_matrix', Rp.solver.admm_update_x, args, u, z, S)
        if not ok:
            return
        c.notes.update({'kind': 'x', 'n': n})
        f = [len(eig.calls) == 1]
        if f[0]:
            M = eig.calls[0][0]
            f.append(M.shape == (n, n))
            if f[-1]:
                k = 0
                for i in range(n):
                    for j in range(i, n):
                        want = R(rho) * (R(z[k]) - R(u[k])) - R(S[i, j])
                        f.append(R(M[i, j]) == want)
                        f.append(R(M[j, i]) == want)
                        k += 1
        if not c.prove('x_update_decomposes_right_matrix', conj(f)):
            return
        d = eig.calls[0][1]
        c.outputs['theta'] = xnew
        g = [xnew.shape == (L,)]
        if g[0]:
            k = 0
            for i in range(n):
                for j in range(i, n):
                    t = R(xnew[k])
                    if i == j:
                        g.append(z3.And(R(rho) * t * t - R(d[i]) * t - 1 == 0, t > 0))
                    else:
                        g.append(t == 0)
                    k += 1
        c.prove('x_update_eigenvalue_stationarity', conj(g))

    # 5c
    def xupdate_orth(self, c):
        """M := q diag(d) q^T is *constructed* from a symbolic orthogonal q and symbolic d (S = -M,
        Z-U = 0), so that LAPACK's contract M = q diag(d) q^T holds by construction and the only
        assumptions are the orthogonality equations."""
        Rp = self.R
        n = 2
        rho = c.real('rho')
        c.assume(R(rho) > 0)
        d = [c.real('eig_%d' % i) for i in range(n)]
        q = [[c.real('q_%d_%d' % (i, j)) for j in range(n)] for i in range(n)]
        for i in range(n):
            for j in range(i, n):
                c.assume(rsum([R(q[i][k]) * R(q[j][k]) for k in range(n)]) == (1 if i == j else 0))
                c.assume(rsum([R(q[k][i]) * R(q[k][j]) for k in range(n)]) == (1 if i == j else 0))
        Mx = [[core.mk_real(rsum([R(q[i][k]) * R(d[k]) * R(q[j][k]) for k in range(n)])) for j in range(n)]
              for i in range(n)]
        S = np.array([[-Mx[i][j] for j in range(n)] for i in range(n)])
        ZmU = np.zeros((n, n))
        calls = []

        def eigh(M):
            calls.append(np.asarray(M))
            return (np.array(d), np.array(q))
        stubs.install_linalg(eigh=eigh)
        ok, xnew = guarded(c, 'x_update_orientation_and_scale', Rp.solver.x_update_prox, S, ZmU, rho)
        if not ok:
            return
        c.notes.update({'kind': 'xo'})
        f = [len(calls) == 1]
        if f[0]:
            for i in range(n):
                for j in range(n):
                    f.append(R(calls[0][i, j]) == R(Mx[i][j]))
        # the eigenvalue map t_k(d_k, rho) as the real code computes it, obtained from the same
        # function on the 1x1 problem (its stationarity rho t^2 - d t - 1 = 0, t > 0 is the
        # x_update_eigenvalue_stationarity obligation)
        t = []
        for k in range(n):
            one = []
            stubs.install_linalg(eigh=lambda M, k=k: (np.array([d[k]]), np.array([[1.0]])))
            out1 = Rp.solver.x_update_prox(np.array([[-d[k]]]), np.zeros((1, 1)), rho)
            t.append(out1[0])
        Th = Rp.mc.reinflate_matrix(xnew)
        for i in range(n):
            for j in range(n):
                f.append(R(Th[i, j]) == rsum([R(q[i][k]) * R(t[k]) * R(q[j][k]) for k in range(n)]))
        c.prove('x_update_orientation_and_scale', conj(f))

    def kkt_lemma(self, c, n):
        """Pure algebra (no code): Theta = q diag(t) q^T, M = q diag(d) q^T, q orthogonal and
        rho t_k^2 - d_k t_k - 1 = 0 imply (rho Theta - M) Theta = I."""
        rho = c.real('rho')
        c.assume(R(rho) > 0)
        d = [c.real('d_%d' % i) for i in range(n)]
        t = [c.real('t_%d' % i) for i in range(n)]
        q = [[c.real('q_%d_%d' % (i, j)) for j in range(n)] for i in range(n)]
        for i in range(n):
            c.assume(R(rho) * R(t[i]) * R(t[i]) - R(d[i]) * R(t[i]) - 1 == 0)
            for j in range(i, n):
                c.assume(rsum([R(q[i][k]) * R(q[j][k]) for k in range(n)]) == (1 if i == j else 0))
                c.assume(rsum([R(q[k][i]) * R(q[k][j]) for k in range(n)]) == (1 if i == j else 0))
        Th = [[rsum([R(q[i][k]) * R(t[k]) * R(q[j][k]) for k in range(n)]) for j in range(n)] for i in range(n)]
        M = [[rsum([R(q[i][k]) * R(d[k]) * R(q[j][k]) for k in range(n)]) for j in range(n)] for i in range(n)]
        f = []
        for i in range(n):
            for j in range(n):
                f.append(rsum([(R(rho) * Th[i][k] - M[i][k]) * Th[k][j] for k in range(n)]) == (1 if i == j else 0))
        c.prove('x_update_kkt_from_stationarity_and_orientation', conj(f))

    # 6
    def convergence(self, c, L):
        import math
        Rp = self.R
        rho = c.real('rho')
        c.assume(R(rho) > 0)
        u, x, z, zo = [stubs.sym_array(c, nm, (L,), writeable=False) for nm in ('u', 'x', 'z', 'zo')]
        atol, rtol = c.real('atol', 0), c.real('rtol', 0)
        stubs.install_linalg(norm=stubs.norm_exact)
        args = self._args(c, 1, 1, 0.1, rho=rho, atol=atol, rtol=rtol)
        ok, out = guarded(c, 'stopping_rule_is_boyd_residual_test', Rp.solver.check_convergence, args, u, x, z, zo)
        if not ok:
            return
        c.notes.update({'kind': 'conv', 'L': L})
        (stop, rp, tp, rd, td) = out
        c.outputs['stop'] = stop

        def nrm2(vals):
            return rsum([v * v for v in vals])
        base = core._const_real(math.sqrt(L)) * R(atol) + core._const_real(0.0001)
        nx2, nz2 = nrm2([R(v) for v in x._flat()]), nrm2([R(v) for v in z._flat()])
        f = [R(rp) >= 0, R(rp) * R(rp) == nrm2([R(a) - R(b) for a, b in zip(x._flat(), z._flat())]),
             R(rd) >= 0, R(rd) * R(rd) == nrm2([R(rho) * (R(a) - R(b)) for a, b in zip(z._flat(), zo._flat())])]
        # tolerances: tp = base + rtol * max(||x||,||z||), td = base + rtol*||rho u||
        mx = c.fresh_real('mx')
        c.assume(z3.And(mx >= 0, z3.Or(mx * mx == nx2, mx * mx == nz2), mx * mx >= nx2, mx * mx >= nz2))
        nu = c.fresh_real('nu')
        c.assume(z3.And(nu >= 0, nu * nu == nrm2([R(rho) * R(v) for v in u._flat()])))
        f += [R(tp) == base + R(rtol) * mx, R(td) == base + R(rtol) * nu]
        f.append(z3.BoolVal(bool(stop)) == z3.And(R(rp) <= R(tp), R(rd) <= R(td)))
        c.prove('stopping_rule_is_boyd_residual_test', conj(f))

    # 7
    def driver(self, c, cb, maxit, S_kind='real'):
        Rp = self.R
        sol = Rp.solver
        N, W = 1, 1
        L = 1
        mi = c.int('maxit', 1, maxit)
        rho0 = c.real('rho')
        c.assume(R(rho0) > 0)
        log = []
        rhos = []

        def rho_update(rho, rp, tp, rd, td):
            new = c.real('rho_new_%d' % len(rhos), None)
            c.assume(R(new) > 0)
            rhos.append(((rho, rp, tp, rd, td), new))
            return new
        args = self._args(c, N, W, 0.1, rho=rho0, maxit=mi, rho_update=rho_update if cb else None)
        c.notes.update({'kind': 'driver', 'maxit': int(mi), 'cb': cb, 'S_kind': S_kind})
        S = stubs.sym_symmetric(c, 'S', 1) if S_kind == 'real' else stubs.const_array([[2]], dtype=np.int64)      # concrete entries: only the dtype matters here
        xs = []

        def fake_x(a, u, z, cov):
            if np.asarray(u).dtype.kind != 'f' or np.asarray(z).dtype.kind != 'f':
                # the iterates are real vectors whatever the dtype of the covariance: an integer state array
                # truncates every update (decided here, before the truncated terms reach the solver)
                c.prove('driver_matches_reference_iteration', False,
                        detail={'state_dtypes': [repr(np.asarray(u).dtype), repr(np.asarray(z).dtype)]})
                raise core.PathAbort()
            v = stubs.sym_array(c, 'xs%d' % len(xs), (L,), owner='lib')
            xs.append(((getattr(a, 'rho', a), u, z, cov), v))     # the argument bundle, or rho itself
            return v
        convs = []
        real_cc = sol.check_convergence

        def fake_cc(a, u, x, z, z_old):
            stop = c.bool('stop_%d' % len(convs))
            nums = tuple(c.real('cc%d_%d' % (len(convs), i)) for i in range(4))
            convs.append(((a.rho, u, x, z, z_old), stop, nums))
            return (bool(stop),) + nums
        real_x = sol.admm_update_x
        sol.admm_update_x = fake_x
        sol.check_convergence = fake_cc
        try:
            ok, out = guarded(c, 'driver_matches_reference_iteration', sol.run_admm_optimization, args, S)
        finally:
            sol.admm_update_x = real_x
            sol.check_convergence = real_cc
        if not ok:
            return
        M = int(mi)
        c.notes.update({'kind': 'driver', 'maxit': M, 'cb': cb, 'S_kind': S_kind})
        # reference driver
        f = []
        u = [0.0] * L
        z = [0.0] * L
        rho = rho0
        it = 0
        ci = 0
        ri = 0
        good = True
        last_x = None
        for k in range(M):
            if it >= len(xs):
                good = False
                break
            (arho, au, az, acov), xv = xs[it]
            it += 1
            f += [R(arho) == R(rho), acov is S] + [R(au[j]) == R(u[j]) for j in range(L)] + \
                 [R(az[j]) == R(z[j]) for j in range(L)]
            z_old = z
            xk = [xv[j] for j in range(L)]
            a2 = self._args(c, N, W, 0.1, rho=rho)
            znew = sol.admm_update_z(a2, np.array(u), np.array(xk))
            z = [znew[j] for j in range(L)]
            u = [u[j] + xk[j] - z[j] for j in range(L)]
            last_x = xk
            if k > 0:
                if ci >= len(convs):
                    good = False
                    break
                (crho, cu, cx, cz, czo), stop, nums = convs[ci]
                ci += 1
                f += [R(crho) == R(rho)] + [R(cu[j]) == R(u[j]) for j in range(L)] + \
                     [R(cx[j]) == R(xk[j]) for j in range(L)] + [R(cz[j]) == R(z[j]) for j in range(L)] + \
                     [R(czo[j]) == R(z_old[j]) for j in range(L)]
                if bool(stop):
                    break
                if cb:
                    if ri >= len(rhos):
                        good = False
                        break
                    (argsr, new) = rhos[ri]
                    ri += 1
                    f += [R(argsr[0]) == R(rho)] + [stubs.same_terms(argsr[1 + i], nums[i]) for i in range(4)]
                    u = [(rho / new) * u[j] for j in range(L)]
                    rho = new
        f += [good, it == len(xs), ci == len(convs), ri == len(rhos)]
        if good and last_x is not None:
            f += [R(out[j]) == R(last_x[j]) for j in range(L)]
            f.append(R(args.rho) == R(rho))
        c.prove('driver_matches_reference_iteration', conj(f))

    # 8
    def front_end(self, c):
        Rp = self.R
        seen = []
        real = Rp.solver.run_admm_optimization

        def spy(args, cov):
            seen.append((args, cov))
            return np.zeros(1)
        S = stubs.sym_symmetric(c, 'S', 1)
        lam = c.real('lam', 0)
        rho = c.real('rho', 0)
        cbk = lambda *a: 1.0
        Rp.solver.run_admm_optimization = spy
        try:
            ok, res = guarded(c, 'front_end_forwards_parameters', Rp.admm.admm_optimize_theta, S, lam, 3, 2,
                              rho=rho, rho_update=cbk, max_iterations=7, absolute_tolerance=0.5,
                              relative_tolerance=0.25, verbose=False)
            ok2, res2 = guarded(c, 'front_end_forwards_parameters', Rp.admm.admm_optimize_theta, S, lam, 3, 2)
        finally:
            Rp.solver.run_admm_optimization = real
        if not (ok and ok2):
            return
        a, cov = seen[0]
        b, cov2 = seen[1]
        f = [len(seen) == 2, cov is S, a.window_size == 3, a.num_data_series == 2, a.rho is rho, a.rho_update is cbk,
             a.sparsity_weight is lam, a.max_iterations == 7, a.absolute_tolerance == 0.5,
             a.relative_tolerance == 0.25, a.verbose is False, hasattr(res, 'theta'),
             b.rho == 1, b.rho_update is None, b.max_iterations == 1000, b.absolute_tolerance == 1e-6,
             b.relative_tolerance == 1e-6, b.verbose is False, b.sparsity_weight is lam, cov2 is S]
        c.prove('front_end_forwards_parameters', all(f))


CHECK = C02()
