"""C03 -- every MRF is a finite, symmetric, positive-definite precision matrix; the floor filter."""
import z3

from .base import *   # noqa
from . import states, logdet
from symx.core import SymFP, FP64, RNE


class FPEigh:
    """eigh contract for the FP64 obligations: q = I (diagonal argument), d = arbitrary
    finite binary64 eigenvalues in the stated range."""

    def __init__(self, c, dmax_log2):
        self.c, self.dmax, self.calls = c, dmax_log2, []

    def __call__(self, M):
        c = self.c
        M = np.asarray(M)
        n = M.shape[0]
        d = []
        for i in range(n):
            v = c.fp('d_%d' % i)
            lim = z3.FPVal(2.0 ** self.dmax, FP64)
            c.assume(z3.And(z3.Not(z3.fpIsNaN(v.e)), z3.fpLEQ(z3.fpAbs(v.e), lim)))
            d.append(v)
        q = [[1.0 if i == j else 0.0 for j in range(n)] for i in range(n)]
        self.calls.append((M, d))
        return (np.array(d), np.array(q))


class C03(Check):
    pid = 'C03'
    validate = True
    fork_logging = True       # DEBUG logging on/off is a symbolic input of every path
    element_theory = 'FP64 (IEEE-754 binary64, round-to-nearest-even, z3 FloatingPoint) for the eigenvalue map and the floor filter; REAL elsewhere'
    anchors = [('src/fast_ticc/admm/solver.py', 'x_update_prox'), ('src/fast_ticc/graphical_lasso.py', '_zero_small_elements'),
               ('src/fast_ticc/graphical_lasso.py', '_reconstruct_optimized_matrix'),
               ('src/fast_ticc/graphical_lasso.py', '_update_cluster_covariances'),
               ('src/fast_ticc/matrix_compression.py', 'reinflate_matrix')]
    obligations = ['eigenvalue_positive_in_real_arithmetic', 'eigenvalue_finite_positive_in_binary64',
                   'reinflated_matrix_symmetric', 'floor_filter_exact_in_binary64', 'floor_zero_changes_nothing',
                   'reconstruct_filters_fresh_matrix_only', 'mrf_logdet_argument_in_double_range']
    obligation_text = {
        'eigenvalue_positive_in_real_arithmetic': 'for all real d and rho>0 the X-update eigenvalue t=(d+sqrt(d^2+4rho))/(2rho) is > 0 (no size bound)',
        'eigenvalue_finite_positive_in_binary64': 'executed in IEEE binary64 from the real x_update_prox with q=I: for every finite d with |d| <= 2^44 and rho in {0.1,1,10} each returned diagonal entry is finite and > 0',
        'reinflated_matrix_symmetric': 'reinflate_matrix(v) is symmetric with entry (i,j) = v[rank(min,max)]',
        'floor_filter_exact_in_binary64': 'for every binary64 x (incl. +-0, subnormals, +-inf, NaN) and eps>=0: output is +0 if -eps<x<eps else bit-identical to x',
        'floor_zero_changes_nothing': 'with eps == 0 the output is bit-identical to the input',
        'reconstruct_filters_fresh_matrix_only': '_reconstruct_optimized_matrix filters the freshly reinflated matrix, keeps it symmetric, and never writes the compressed vector it was given',
        'mrf_logdet_argument_in_double_range': 'the cluster log-determinant of Theta=t*I_n (n up to 200) must not be obtained through a determinant outside the double range',
    }
    stubs = ['np.linalg.eigh -> q=I, d arbitrary finite binary64 with |d|<=2^44 (FP64) / arbitrary real (REAL)',
             'np.linalg.det -> exact + range obligation; slogdet -> LOG(det); inv -> opaque']
    assumptions = ['positive definiteness of the returned iterate follows from positive eigenvalues through the eigh '
                   'contract (orthogonal q); LAPACK\'s own rounding in q is not modelled']
    outside_claim = ['end-to-end finiteness on arbitrary data beyond obligations 2,4,5', '|d| > 2^44', 'rho outside {0.1,1,10} in FP64']
    canary = {'what': 'eigenvalue map with the wrong sign under the root',
              'edits': [('fast_ticc/admm/solver.py', 'determinant = np.square(d) + (4*rho) * np.ones(d.shape)',
                         'determinant = np.square(d) - (4*rho) * np.ones(d.shape)')]}

    def bounds(self, tier):
        return {'FP64 eigenvalue map': 'n = 1, |d| <= 2^44, rho = 1' if tier == 'quick' else
                'n = 1, |d| <= 2^44, rho in {0.1, 0.5, 1, 2, 10} (n = 2 with q = I is two independent copies plus 0*x terms; z3 does not finish it in 10 min and it is not claimed)',
                'floor filter': 'scalar element + 2x2 / 3x3 matrices, eps symbolic >= 0 (binary64)',
                'logdet': 'Theta=t*I_n, n in {1,40,100}' if tier == 'quick' else 'Theta=t*I_n, n in {1,40,100,200}'}

    def configs(self, tier):
        q = tier == 'quick'
        cfgs = [Config('eig_real', self.eig_real, {}, nonlinear=True)]
        for rho in ([1.0] if q else [0.1, 0.5, 1.0, 2.0, 10.0]):
            for n in [1]:
                cfgs.append(Config('eig_fp64_n%d_rho%s' % (n, rho), self.eig_fp, {'n': n, 'rho': rho},
                                   prove_timeout_ms=600000, branch_timeout_ms=120000, nonlinear=True,
                                   witness_every=1))
        for n in ([1, 2, 3]):
            cfgs.append(Config('filter_n%d' % n, self.filter, {'n': n}, prove_timeout_ms=120000, witness_every=1))
        cfgs.append(Config('reinflate_n3', self.reinflate, {'n': 3}))
        for n in ([1, 40, 100] if q else [1, 40, 100, 200]):
            cfgs.append(Config('logdet_n%d' % n, self.finite, {'n': n}))
        return cfgs

    def eig_real(self, c):
        Rp = self.R
        from .c02 import EighStub
        rho = c.real('rho')
        c.assume(R(rho) > 0)
        eig = EighStub(c, 'identity')
        stubs.install_linalg(eigh=eig)
        S = stubs.sym_symmetric(c, 'S', 1)
        A = stubs.sym_symmetric(c, 'A', 1)
        ok, out = guarded(c, 'eigenvalue_positive_in_real_arithmetic', Rp.solver.x_update_prox, S, A, rho)
        if not ok:
            return
        c.notes['kind'] = 'eig_real'
        c.prove('eigenvalue_positive_in_real_arithmetic', R(out[0]) > 0)

    def eig_fp(self, c, n, rho):
        Rp = self.R
        eig = FPEigh(c, 44)
        stubs.install_linalg(eigh=eig)
        S = np.zeros((n, n))
        A = np.zeros((n, n))
        c.notes.update({'kind': 'eig_fp', 'n': n, 'rho': rho})
        ok, out = guarded(c, 'eigenvalue_finite_positive_in_binary64', Rp.solver.x_update_prox, S, A, rho)
        if not ok:
            return
        th = Rp.mc.reinflate_matrix(out)
        c.outputs['theta_diag'] = [th[i, i] for i in range(n)]
        f = []
        for i in range(n):
            v = th[i, i]
            if isinstance(v, SymFP):
                f.append(z3.And(z3.Not(z3.fpIsNaN(v.e)), z3.Not(z3.fpIsInf(v.e)), z3.fpGT(v.e, z3.FPVal(0.0, FP64))))
            else:
                f.append(isinstance(v, float) and v > 0 and v != float('inf'))
        c.prove('eigenvalue_finite_positive_in_binary64', conj(f))

    def filter(self, c, n):
        Rp = self.R
        gl = Rp.gl
        eps = c.fp('eps')
        c.assume(z3.fpGEQ(eps.e, z3.FPVal(0.0, FP64)))
        L = n * (n + 1) // 2
        vec = stubs.sym_array(c, 'v', (L,), kind='fp', writeable=False)
        snap = stubs.snapshot(vec)
        args = states.user_args(Rp, 1, eps=eps)
        st = Rp.model_state.ModelState.empty_model(args, np.zeros((1, n)))
        c.notes.update({'kind': 'filter', 'n': n})
        ok, M = guarded(c, 'floor_filter_exact_in_binary64', gl._reconstruct_optimized_matrix, st, vec)
        if not ok:
            return
        c.outputs['filtered'] = M
        f, g, sym = [M.shape == (n, n)], [], []
        if f[0]:
            k = 0
            for i in range(n):
                for j in range(i, n):
                    x = vec[k].e
                    # (U + U^T) - diag(U) in binary64: off-diagonal x+0 (keeps x, -0 -> +0 is a change of
                    # the *reinflation*, not of the filter); so compare against the reinflated value
                    k += 1
            plain = Rp.mc.reinflate_matrix(vec)
            for i in range(n):
                for j in range(n):
                    x = core.fp_const(plain[i, j])
                    y = core.fp_const(M[i, j])
                    small = z3.And(z3.fpLT(x, eps.e), z3.fpGT(x, z3.fpNeg(eps.e)))
                    f.append(z3.If(small, y == z3.FPVal(0.0, FP64), y == x))
                    g.append(z3.Implies(z3.fpIsZero(eps.e), y == x))
                    sym.append(core.fp_const(M[i, j]) == core.fp_const(M[j, i]))
        c.prove('floor_filter_exact_in_binary64', conj(f))
        c.prove('floor_zero_changes_nothing', conj(g))
        c.prove('reconstruct_filters_fresh_matrix_only',
                conj(sym + [stubs.unchanged(snap, vec), M._b is not vec._b]))
        # the helper on its own, copy=True must leave its argument alone
        arr = stubs.sym_array(c, 'a', (n, n), kind='fp', writeable=False)
        snap2 = stubs.snapshot(arr)
        ok, out = guarded(c, 'floor_filter_exact_in_binary64', gl._zero_small_elements, arr, eps)
        if ok:
            h = [out._b is not arr._b, stubs.unchanged(snap2, arr)]
            for i in range(n):
                for j in range(n):
                    x, y = arr[i, j].e, core.fp_const(out[i, j])
                    small = z3.And(z3.fpLT(x, eps.e), z3.fpGT(x, z3.fpNeg(eps.e)))
                    h.append(z3.If(small, y == z3.FPVal(0.0, FP64), y == x))
            c.prove('floor_filter_exact_in_binary64', conj(h))

    def reinflate(self, c, n):
        Rp = self.R
        L = n * (n + 1) // 2
        v = stubs.sym_array(c, 'v', (L,))
        M = Rp.mc.reinflate_matrix(v)
        f = [M.shape == (n, n)]
        k = 0
        for i in range(n):
            for j in range(i, n):
                f += [stubs.same_terms(M[i, j], v[k]), stubs.same_terms(M[j, i], v[k])]
                k += 1
        c.prove('reinflated_matrix_symmetric', conj(f))

    def finite(self, c, n):
        Rp = self.R
        t, Th = logdet.scaled_identity(c, n)
        args = states.user_args(Rp, 1)
        st = Rp.model_state.ModelState.empty_model(args, np.zeros((2, n)))
        st.point_labels = [0, 0]
        det = logdet.DetWithRange('mrf_logdet_argument_in_double_range')
        c.log_range_obligation = 'mrf_logdet_argument_in_double_range'
        stubs.install_linalg(det=det, slogdet=logdet.slogdet_stub, inv=stubs.inv_uninterpreted)
        c.notes.update({'n': n, 'site': 'graphical_lasso'})
        comp = Rp.mc.compress_matrix(Th)
        ok, res = guarded(c, 'mrf_logdet_argument_in_double_range', Rp.gl._update_cluster_covariances, st,
                          st.clusters[0], comp)
        if ok:
            c.prove('mrf_logdet_argument_in_double_range', True)


CHECK = C03()
