"""C08 -- cluster repopulation conserves points and never starves a donor.

One inductive step of the real ``repopulate_empty_clusters`` from an
*arbitrary* labelling (symbolic labels, symbolic minimum size, symbolic spread
ranking, any random draw), so histories of any length are covered.
"""
import itertools

import z3

from .base import *   # noqa


def make_state(Rp, c, labels, K, m, data=None, spreads=True):
    P = len(labels)
    args = Rp.arguments.UserArguments(
        sparsity_weight=0.1, iteration_limit=3, label_switching_cost=1.0, min_cluster_size=m,
        min_meaningful_covariance=0, num_clusters=K, num_processors=1, window_size=1,
        biased_covariance=False)
    if data is None:
        data = np.zeros((P, 1))
    state = Rp.model_state.ModelState.empty_model(args, data)
    state.point_labels = labels
    for k, cl in enumerate(state.clusters):
        # 2-D, like the real computed covariances (for a matrix the default norm is Frobenius, ord=2 is
        # the spectral norm); element [0,0] is the tag read by the norm stub
        cl.computed_covariance = np.array([[float(k), 0.0], [0.0, 0.0]])
    return state


class SpreadOracle:
    """np.linalg.norm contract for the spread ranking: an arbitrary
    non-negative real per cluster (the cluster is identified by the tag stored
    in its computed_covariance)."""

    takes_ord = True

    def __init__(self, c, K):
        self.c = c
        self.s = [c.real('spread_%d' % k, 0) for k in range(K)]
        self.spec = {}

    def __call__(self, v, ord=None, axis=None, keepdims=False):
        v = np.asarray(v)
        k = int(v._flat()[0])
        if ord in (None, 'fro') or (v.ndim == 1 and ord == 2):
            return self.s[k]                       # "the spread" of the property: Frobenius / Euclidean
        if ord == 2 and v.ndim == 2:
            # spectral norm: another quantity, tied to the Frobenius norm only by spec <= fro <= sqrt(n) spec
            if k not in self.spec:
                t = self.c.real('spec_%d' % k, 0)
                self.c.assume(z3.And(R(t) <= R(self.s[k]), 4 * R(t) >= 3 * R(self.s[k])))
                self.spec[k] = t
            return self.spec[k]
        return self.c.real('norm_%s_%d' % (str(ord).replace('-', 'm'), k), 0)


def sizes_of(labels, K):
    s = [0] * K
    for l in labels:
        s[int(l)] += 1
    return s


class C08(Check):
    pid = 'C08'
    validate = True
    fork_logging = True       # DEBUG logging on/off is a symbolic input of every path
    anchors = [('src/fast_ticc/cluster_maintenance.py', 'repopulate_empty_clusters'),
               ('src/fast_ticc/cluster_maintenance.py', '_find_ranked_donor_cluster_ids'),
               ('src/fast_ticc/cluster_maintenance.py', '_find_point_donor'),
               ('src/fast_ticc/cluster_maintenance.py', '_move_random_points'),
               ('src/fast_ticc/containers/model_state.py', 'ModelState._update_cluster_membership')]
    obligations = ['raise_only_without_eligible_donor', 'labels_valid_and_conserved', 'recipients_refilled',
                   'donors_not_starved', 'moves_only_donor_to_recipient', 'exactly_m_from_one_donor',
                   'donor_order_by_decreasing_spread', 'input_state_untouched', 'same_object_when_nothing_to_do',
                   'result_is_one_partition']
    obligation_text = {
        'raise_only_without_eligible_donor': 'RuntimeError (naming the donor shortage) only when no cluster that had >= 2m points still holds >= 2m',
        'labels_valid_and_conserved': 'every point still has exactly one label in [0,K)',
        'recipients_refilled': 'every cluster that had < 2 points now has >= m (exactly size+m)',
        'donors_not_starved': 'every cluster whose size decreased had >= 2m before and keeps >= m',
        'moves_only_donor_to_recipient': 'a point changes label only from a cluster that had >= 2m to one that had < 2; every other cluster is untouched',
        'exactly_m_from_one_donor': 'each refilled cluster receives exactly m points, all from one donor',
        'donor_order_by_decreasing_spread': 'some processing order of the refills has every donor of maximum spread among the clusters then eligible (had >= 2m, still hold >= 2m)',
        'input_state_untouched': 'labels, member lists and cluster objects of the input state are unchanged',
        'same_object_when_nothing_to_do': 'with no cluster below 2 points the very same state object is returned',
        'result_is_one_partition': "result's member lists are exactly the sorted label classes",
    }
    stubs = ['np.linalg.norm -> arbitrary non-negative spread per cluster (ties allowed)',
             'random.sample(range(n), m) -> any m pairwise distinct indices (all seeds at once)',
             'LOGGER untouched (messages are not formatted at the default level)']
    assumptions = ['m >= 1; labels in [0,K)']
    outside_claim = ['K, P beyond the stated bounds', 'the numerical value of the spread (norm of the computed covariance)']
    canary = {'what': 'a cluster with exactly 2m points is no longer accepted as donor by the picker',
              'edits': [('fast_ticc/cluster_maintenance.py',
                         'if potential_donor_size >= 2 * min_cluster_size:',
                         'if potential_donor_size > 2 * min_cluster_size:')]}

    def bounds(self, tier):
        if tier == 'quick':
            return {'arbitrary label order': 'K=2,P<=5; K=3,P<=5', 'm': '1..2', 'spreads': 'symbolic >= 0',
                    'run-length form': 'K=3,P<=7; K=4,P<=6; K=5,P<=6; m 1..2'}
        return {'arbitrary label order': 'K=2,P<=7; K=3,P<=6', 'm': '1..3', 'spreads': 'symbolic >= 0',
                'run-length form': 'K=3,P<=9,m<=3; K=4,P<=8,m<=2; K=5,P<=6,m<=2; K=5,P=7,m=1; K=6,P<=7,m=1'}

    def configs(self, tier):
        q = tier == 'quick'
        cfgs = []
        for (K, P) in ([(2, 3), (2, 4), (2, 5), (3, 4), (3, 5)] if q else
                       [(2, 4), (2, 5), (2, 6), (2, 7), (3, 4), (3, 5), (3, 6)]):
            cfgs.append(Config('labels_K%d_P%d' % (K, P), self.step,
                               {'K': K, 'P': P, 'mmax': 2 if q else 3, 'mode': 'labels'},
                               split=3, witness_every=23, max_fanout=128))
        for (K, P, mm) in ([(3, 6, 2), (3, 7, 2), (4, 3, 2), (4, 4, 2), (4, 5, 2), (4, 6, 2), (5, 4, 2), (5, 6, 2)] if q else
                           [(3, 8, 3), (3, 9, 3), (4, 4, 2), (4, 6, 2), (4, 7, 2), (4, 8, 2), (5, 5, 2), (5, 6, 2),
                            (5, 7, 1), (6, 6, 1), (6, 7, 1)]):
            cfgs.append(Config('sizes_K%d_P%d' % (K, P), self.step,
                               {'K': K, 'P': P, 'mmax': mm, 'mode': 'sizes'},
                               split=3, witness_every=37, max_fanout=128))
        return cfgs

    def step(self, c, K, P, mmax, mode):
        Rp = self.R
        cm = Rp.cm
        m = c.int('m', 1, mmax)
        m_form = 'int'
        if mode == 'sizes' and bool(int(c.int('m_is_uint8', 0, 1))):
            # the same minimum size handed over as an unsigned NumPy integer scalar
            m = core.SymInt(I(m), 'np.uint8')
            m_form = 'np.uint8'
        if mode == 'labels':
            labels = [c.int('l_%d' % i, 0, K - 1) for i in range(P)]
        else:
            sz = [c.int('size_%d' % k, 0, P) for k in range(K)]
            c.assume(z3.Sum([I(s) for s in sz]) == P)
            labels = []
            for k in range(K):
                labels += [k] * int(sz[k])
        state = make_state(Rp, c, labels, K, m)
        pre = [int(l) for l in state.point_labels]
        pre_members = [list(cl.member_points) for cl in state.clusters]
        pre_clusters = list(state.clusters)
        pre_fields = [(cl.computed_covariance, cl.empirical_covariance, cl.train_inverse, cl.stacked_data_mean)
                      for cl in state.clusters]
        pre_labels_obj = state.point_labels
        size0 = sizes_of(pre, K)
        oracle = SpreadOracle(c, K)
        stubs.install_linalg(norm=oracle)
        rnd = stubs.StubRandom()
        old_random = cm.random
        cm.random = rnd
        raised = None
        new = None
        try:
            new = cm.repopulate_empty_clusters(state)
        except RuntimeError as exc:
            raised = exc
        except (core.PathAbort, core.Unsupported, core.HarnessError):
            raise
        except Exception as exc:
            c.notes['unexpected_exception'] = repr(exc)
            c.notes.update({'K': K, 'P': P, 'labels': pre, 'm': int(m), 'm_form': m_form})
            c.prove('labels_valid_and_conserved', False)
            return
        finally:
            cm.random = old_random
        mm = int(m)
        c.notes.update({'K': K, 'P': P, 'labels': pre, 'm': mm, 'm_form': m_form})
        # the input state is never modified, whatever happened
        untouched = [state.point_labels is pre_labels_obj, [int(l) for l in state.point_labels] == pre,
                     len(state.clusters) == K, all(a is b for a, b in zip(state.clusters, pre_clusters)),
                     [list(cl.member_points) for cl in pre_clusters] == pre_members,
                     all(cl.computed_covariance is f[0] and cl.empirical_covariance is f[1]
                         and cl.train_inverse is f[2] and cl.stacked_data_mean is f[3]
                         for cl, f in zip(pre_clusters, pre_fields))]
        c.prove('input_state_untouched', all(untouched))
        need = [k for k in range(K) if size0[k] < 2]
        elig0 = [k for k in range(K) if size0[k] >= 2 * mm]
        if raised is not None:
            c.outputs['raised'] = 1
            # Replaying the refills that can have happened is not observable from outside; the
            # necessary condition that *is*: it may not raise while enough eligible capacity exists
            # for every refill, i.e. if sum over eligible donors of floor(size/m) - 1 >= #recipients.
            capacity = sum(size0[k] // mm - 1 for k in elig0)
            msg = str(raised)
            c.prove('raise_only_without_eligible_donor',
                    len(need) > 0 and capacity < len(need) and 'donor' in msg.lower())
            return
        c.outputs['raised'] = 0
        c.prove('raise_only_without_eligible_donor', True)
        if not need:
            c.prove('same_object_when_nothing_to_do', new is state)
            return
        c.prove('same_object_when_nothing_to_do', new is not state)
        post = list(new.point_labels)
        ok = len(post) == P and all(isinstance(l, (int, core.SymInt)) for l in post)
        if ok:
            post = [int(l) for l in post]
            ok = all(0 <= l < K for l in post)
        c.outputs['labels'] = post if ok else None
        if not c.prove('labels_valid_and_conserved', ok):
            return
        size1 = sizes_of(post, K)
        c.prove('recipients_refilled', all(size1[k] >= mm and size1[k] == size0[k] + mm for k in need))
        c.prove('donors_not_starved',
                all(size0[k] >= 2 * mm and size1[k] >= mm for k in range(K) if size1[k] < size0[k]))
        moved = [(i, pre[i], post[i]) for i in range(P) if pre[i] != post[i]]
        c.prove('moves_only_donor_to_recipient',
                all(size0[a] >= 2 * mm and size0[b] < 2 for (_, a, b) in moved))
        donor_of = {}
        one = True
        for k in need:
            src = sorted({a for (_, a, b) in moved if b == k})
            cnt = len([1 for (_, a, b) in moved if b == k])
            if len(src) != 1 or cnt != mm:
                one = False
            else:
                donor_of[k] = src[0]
        if not c.prove('exactly_m_from_one_donor', one):
            return
        # donor order: exists an order of the refills consistent with "max spread among eligible"
        alts = []
        for order in itertools.permutations(need):
            cur = list(size0)
            f = []
            good = True
            for k in order:
                d = donor_of[k]
                elig = [j for j in elig0 if cur[j] >= 2 * mm]
                if d not in elig:
                    good = False
                    break
                for j in elig:
                    if j != d:
                        f.append(R(oracle.s[d]) >= R(oracle.s[j]))
                cur[d] -= mm
                cur[k] += mm
            if good:
                alts.append(conj(f))
        c.prove('donor_order_by_decreasing_spread', disj(alts))
        inv = [len(new.clusters) == K]
        if inv[0]:
            for k in range(K):
                inv.append(list(new.clusters[k].member_points) == [i for i in range(P) if post[i] == k])
                inv.append(new.clusters[k] is not state.clusters[k])
        c.prove('result_is_one_partition', all(inv))


CHECK = C08()
